"""C01 - hierarchy and dependency graph stay well-formed under any mutation history.   (DESIGN.md section 5, C01)

Inductive argument per writer: the relation fields are written only inside the owner set (own); every owner validates
the guard table before its first write (guards); both ends of every link are written (mirror); the closure helpers used
by the guards walk the raw links (closure); list facades only permute (facades) and move() cannot fail between remove and
re-insert (move_cannot_lose_a_task: the anchor checks, as implications over the guard formulas); the two dependency setters
agree (sibling).  Sufficiency of the guard set is the hand argument in DESIGN.md, not mechanised.

Shapes (round 3): the dependency helper is read as a set of exists-chains (loops, any(), nested generators, isdisjoint, either
nesting order, several loops) over list values resolved into parts (`[x] + list(y)`, `[x, *y]`, literal + extend/append/+=,
accumulate loops); closure helpers as nested generator, self-recursive list builder or while loop; mirror updates through alias
locals.  "Expected construct not found" is UNDECIDED unless the function visibly does nothing of the kind (closed world).
Round 11: move() may relocate in a working copy written back once (`W = self._list.copy() .. self._list[:] = W`: same pairing rule on
W); re-rooting written out as `self.parent = self.__wbs._root()`; closure walkers over the raw `t.__predecessors`; a selector local
chosen by an if/elif chain inside the validation loop (taskrules.TreeExpander); emptiness of the child / link lists as atoms with
the axioms desc(A,B) => B has children, _has_dependency_with_parents(A,B) => A has children or links (a fast path that skips the
whole validation block for a "plain leaf" is refuted for P1 only); mirror_children: no rejection between resetting the old
children's parent and clearing the list.
Not decided: explicit-stack closure walkers, sort() replacing the list by something that is not sorted()/reversed() of it,
an in-place list.sort() counts as a permutation (its atomicity is C15.sort_works_on_a_copy).
"""
from __future__ import annotations

import ast
import copy
import re

from sa import facts
from sa.cfg import cfg_of
from sa.effects import Effects
from sa.flow import Expander as _EngineExpander, flow_of
from sa.model import src, walk_no_nested, unmangle
from sa.pat import match, same
from . import taskrules as T


class Expander(_EngineExpander):
    """the engine's Expander with constant conditional expressions folded (`A if False else B` -> B): what is left of a merged
    helper after the normaliser spliced it with a constant switch"""

    def expand(self, expr, at=None, *a, **k):
        out = T.fold_const(super().expand(expr, at, *a, **k))
        at = at if at is not None else self.flow.node_of_expr(expr)
        if at is None or out is None:
            return out
        # a local that stands for ONE object chosen by such a folded switch (`mirror = v.__x if False else v.__y`) and is then changed
        # in place: the engine keeps "mutated" names opaque unless their definition is a plain attribute path - after folding it is
        sub = {}
        for n in ast.walk(out):
            if isinstance(n, ast.Name) and isinstance(getattr(n, 'ctx', None), ast.Load) and n.id in self._mutated_names() and n.id not in sub:
                d = self.flow.unique_def(n.id, at)
                if d is not None and d.kind == 'assign' and d.value is not None and d.node is not None and d.node is not at and \
                        isinstance(d.value, ast.IfExp):
                    v = T.fold_const(super().expand(d.value, d.node))
                    b = v
                    while isinstance(b, ast.Attribute):
                        b = b.value
                    if isinstance(v, ast.Attribute) and isinstance(b, ast.Name):
                        sub[n.id] = v
        if sub:
            from sa.flow import subst
            out = subst(out, sub)
        return out
from .taskrules import guard_facts, relation_write_nodes, Roles, OWNERS, SETTERS


# required guards: (label, atom, needs binder over the argument)
GUARDS = {
    'parent': [('P1 parent is the task itself', 'same(arg,self)', False),
               ('P2 parent is a descendant of the task', 'desc(arg,self)', False),
               ('P4 a dependency links the moved subtree with the new parent or its ancestors',
                'call:_has_dependency_with_parents(self,arg)', False)],
    'children': [('K1 a child is the task itself', 'same(elem,self)', True),
                 ('K2 the task is a descendant of a new child', 'desc(self,elem)', True),
                 ('K4 a dependency links a new child subtree with the task or its ancestors',
                  'call:_has_dependency_with_parents(elem,self)', True)],
    'predecessors': [('G1 self-link', 'same(elem,self)', True),
                     ('G2 an ancestor as predecessor', 'desc(self,elem)', True),
                     ('G3 a descendant as predecessor', 'desc(elem,self)', True),
                     ('G4 dependency cycle', 'tpred(self,elem)', True)],
    'successors': [('G1 self-link', 'same(elem,self)', True),
                   ('G2 an ancestor as successor', 'desc(self,elem)', True),
                   ('G3 a descendant as successor', 'desc(elem,self)', True),
                   ('G4 dependency cycle', 'tpred(elem,self)', True)],
}
CONTEXT_OK = {'none(arg)'}      # `parent is not None` may accompany a parent guard


def check(ctx):
    prog = ctx.prog
    eff = Effects(prog, ctx.typer, ctx.cg)
    ctx.assume("`in` on lists of tasks is identity/equality of Task objects: Task defines no __eq__/__hash__ (checked by C01.own)")
    ctx.assume("the guard set is sufficient for the invariant by the inductive hand argument of DESIGN.md section 5/C01")

    o = ctx.ob('own', 'R1',
               "parent/children/predecessors/successors state (and the list shared with the children facade) is written only inside "
               "the owner set; Task defines no __eq__/__hash__; link facades never mutate their list", floor=20)
    ctx.guarded(o, lambda o: own(ctx, o, eff))

    for name in ('parent', 'children', 'predecessors', 'successors'):
        o = ctx.ob(f'guards_{name}', 'R2',
                   f"{name} setter: every required rejection ({'; '.join(g[0][:2] for g in GUARDS[name])}) raises RuntimeError for every "
                   f"element of the argument and dominates the first write of relation state", floor=len(GUARDS[name]))
        ctx.guarded(o, lambda o, name=name: guards(ctx, o, eff, name))

    o = ctx.ob('dependency_helper', 'R2',
               "_has_dependency_with_parents(task, new_parent) scans task and ALL its descendants, predecessors and successors, against "
               "new_parent and ALL its ancestors", floor=1)
    ctx.guarded(o, lambda o: dep_helper(ctx, o))

    o = ctx.ob('closure', 'R8',
               "the closure helpers walk the raw links transitively: all_children over __children (child before its subtree), all_parents up "
               "the parent chain, all_predecessors/all_successors over the direct lists; de-duplication is by object identity", floor=5)
    ctx.guarded(o, lambda o: closure(ctx, o))

    for name, mine, other in (('predecessors', '_Task__predecessors', '_Task__successors'),
                              ('successors', '_Task__successors', '_Task__predecessors')):
        o = ctx.ob(f'mirror_{name}', 'R4',
                   f"{name} setter: self is removed from the mirror list of every old element (decided on task objects), the own list is "
                   f"replaced by a copy of the argument, self is added once to the mirror list of every new element - in this order", floor=3)
        ctx.guarded(o, lambda o, name=name, mine=mine, other=other: mirror_dep(ctx, o, name, mine, other))

    o = ctx.ob('links_listed_once', 'R4',
               "predecessors/successors setters: the stored list holds every linked task ONCE (the argument is de-duplicated by object "
               "identity, e.g. through _unique_tasks, or a repeated element is rejected) - the mirror side is kept with `if self not in ..: "
               "append` / one `remove`, so a task stored twice is mirrored by one entry and a later removal through the other side leaves a "
               "one-sided link", floor=2)
    ctx.guarded(o, lambda o: listed_once(ctx, o))

    o = ctx.ob('mirror_parent', 'R4',
               "parent setter: the task is removed from the raw old parent's child list before the parent changes, the new parent's child "
               "list receives it exactly once (append guarded by `not in`), re-rooting goes through the WBS root task", floor=4)
    ctx.guarded(o, lambda o: mirror_parent(ctx, o))

    o = ctx.ob('mirror_children', 'R4',
               "children setter: every old child loses its parent, the shared list is cleared in place, every element of the argument is "
               "re-parented through the parent setter", floor=3)
    ctx.guarded(o, lambda o: mirror_children(ctx, o))

    o = ctx.ob('facades_permute', 'R4',
               "_ChildrenList.move/sort/reorder only permute the child list: every removed element is re-inserted, sort uses sorted() of "
               "the same list, reorder removes each picked element from the remainder (or rejects duplicates), and the new list is published", floor=4)
    ctx.guarded(o, lambda o: facades(ctx, o))

    o = ctx.ob('move_cannot_lose_a_task', 'R2',
               "_ChildrenList.move: between remove(task) and insert(index(anchor), task) nothing can fail - the anchor is given, is in the "
               "list and is not one of the moved tasks, all rejected with RuntimeError before the first list change (otherwise the removed "
               "task is lost from the child list while it still names the parent)", floor=5)
    ctx.guarded(o, lambda o: move_anchor(ctx, o, eff))

    o = ctx.ob('shared_child_list', 'R1',
               "one child list object per task, shared with every children facade: facades change it in place and publish that very object, "
               "nothing rebinds it (otherwise a list obtained earlier goes stale and a later remove()/append() through it re-attaches or "
               "drops tasks)", floor=4)
    ctx.guarded(o, lambda o: T.shared_list(ctx, o))

    o = ctx.ob('sibling_setters_agree', 'R11',
               "the predecessors and successors setters have the same guard set and the same write pattern under the renaming pred<->succ", floor=1)
    ctx.guarded(o, lambda o: sibling(ctx, o))


# ======================================================================================================================
def own(ctx, o, eff):
    prog = ctx.prog
    fields = [k for k in OWNERS if k not in ('_Task__wbs', '_Task__id')]
    for f in prog.all_funcs():
        for w in eff.direct_writes(f):
            if w.field in fields:
                # `_list` stores of unrelated classes do not exist in this package; keep by class
                if w.field == '_list' and f.cls not in ('_ImmutableTaskList', '_TaskList', '_ChildrenList', '_PredecessorsList', '_SuccessorsList'):
                    rt = (w.recv_type or '')
                    if not rt.startswith('_'):
                        continue
                if f.qual in OWNERS[w.field] or (f.parent is not None and f.parent.qual in OWNERS[w.field]):
                    o.site(f, w.node, f"{w.kind} {unmangle(w.field)}")
                elif w.field == '_list' and f.cls == '_ChildrenList' and _removal_then_reparent(f, w):
                    # both ends are updated (list entry removed here, parent pointer through the validating setter): the forest
                    # can stay well-formed, but this writer is not part of the inductive argument
                    o.undecided(f, w.node, f"{w.kind} of {unmangle(w.field)}",
                                f"{f.name} takes a task out of the shared child list itself (`{src(w.node)[:50]}`) and re-assigns its parent "
                                f"through the setter afterwards: a writer outside the owner set that the argument does not cover")
                else:
                    o.refute(f, w.node, f"{w.kind} of {unmangle(w.field)}", f"{unmangle(w.field)} is written outside its owner set "
                             f"({', '.join(sorted(x.split('.', 1)[1] for x in OWNERS[w.field]))}): [{src(w.node)[:70]}] bypasses the guards")
        # dynamic attribute stores with computed names must be restricted to public names
        for w in eff.direct_writes(f):
            if w.field == '<dynamic>' and f.module.name in ('task', 'wbs') and f.cls in ('Task', 'WBS', '_ImmutableTaskList'):
                conds = facts.node_conditions(prog, f, w.node, ctx.typer, expand=False) + \
                    facts.node_conditions(prog, f, w.node, ctx.typer, expand=True)
                key = w.node.args[0] if isinstance(w.node, ast.Call) and w.node.args else None
                if isinstance(w.node, ast.Call) and isinstance(w.node.func, ast.Name) and w.node.func.id == 'setattr' and len(w.node.args) >= 2:
                    key = w.node.args[1]            # setattr(obj, name, value)
                okc = key is not None and isinstance(key, ast.Name) and any(
                    facts.cond_is(t, p, f"{key.id}.startswith('_')", False) is not None for t, p in conds)
                recv_super = isinstance(w.node, ast.Call) and isinstance(w.node.func, ast.Attribute) and \
                    isinstance(w.node.func.value, ast.Call) and getattr(w.node.func.value.func, 'id', '') == 'super'
                if okc or recv_super or f.name == '__init__' or w.root == 'fresh' or _only_init_or_fresh(ctx, eff, f, w):
                    o.site(f, w.node, "dynamic attribute store limited to public names / own private state")
                else:
                    o.refute(f, w.node, w.node, "attribute store with a computed name that may denote a private relation field")
    t = prog.cls('Task')
    for bad in ('__eq__', '__hash__', '__contains__'):
        if bad in t.methods:
            o.refute(t.methods[bad], t.methods[bad].node, bad, f"Task defines {bad}: membership tests in the guards no longer compare task objects")
    if not any(b in t.methods for b in ('__eq__', '__hash__')):
        o.site(None, None, "task.py Task: no __eq__/__hash__")


def _removal_then_reparent(f, w) -> bool:
    """the write is `self._list.remove(x)` and on every way on x's parent is assigned afterwards (`x.parent = ..`)"""
    c = w.node
    if not (isinstance(c, ast.Call) and isinstance(c.func, ast.Attribute) and c.func.attr == 'remove' and len(c.args) == 1 and
            isinstance(c.args[0], ast.Name)):
        return False
    x = c.args[0].id
    cfg = cfg_of(f)
    wn = cfg.node_containing(c)
    stores = [cfg.node_of(st) for st, tgt, val in facts.attr_stores(f, 'parent') if isinstance(tgt.value, ast.Name) and tgt.value.id == x]
    stores = [n for n in stores if n is not None and wn is not None and cfg.can_reach(wn, n)]
    if not stores:
        return False
    # no way from the removal to the exit that avoids every such store
    avoid = {n.id for n in stores}
    seen, todo = set(), list(wn.succ)
    while todo:
        n = todo.pop()
        if n.id in seen or n.id in avoid:
            continue
        seen.add(n.id)
        if n is cfg.exit:
            return False
        todo.extend(n.succ)
    return True


def _only_init_or_fresh(ctx, eff, f, w) -> bool:
    """the dynamic store sits in a private helper on its own receiver, and every call of that helper comes from a constructor on its
    own `self` or goes to a freshly created object (the two contexts in which the unchanged code does the same store)"""
    if not (f.name.startswith('_') and f.self_name and w.root == 'self'):
        return False
    sites = []
    for g in ctx.prog.all_funcs():
        for ci in ctx.cg.calls_in(g):
            if ci.kind == 'call' and any(t is f for t in ci.targets):
                sites.append((g, ci.node))
    if not sites:
        return False
    for g, c in sites:
        recv = c.func.value if isinstance(c, ast.Call) and isinstance(c.func, ast.Attribute) else None
        if recv is None:
            return False
        if g.name == '__init__' and isinstance(recv, ast.Name) and recv.id == g.self_name:
            continue
        try:
            if eff.root_of(recv, g, cfg_of(g).node_containing(c)) == 'fresh':
                continue
        except Exception:
            pass
        return False
    return True


REQ = {
    'parent': [('P1 parent is the task itself', T.F_and(T.F_not(T.F_atom('none(arg)')), T.F_atom('same(arg,self)')), False),
               ('P2 parent is a descendant of the task', T.F_and(T.F_not(T.F_atom('none(arg)')), T.F_atom('desc(arg,self)')), False),
               ('P4 a dependency links the moved subtree with the new parent or its ancestors',
                T.F_and(T.F_not(T.F_atom('none(arg)')), T.F_atom('call:_has_dependency_with_parents(self,arg)')), False)],
    'children': [('K1 a child is the task itself', T.F_atom('same(elem,self)'), True),
                 ('K2 the task is a descendant of a new child', T.F_atom('desc(self,elem)'), True),
                 ('K4 a dependency links a new child subtree with the task or its ancestors',
                  T.F_atom('call:_has_dependency_with_parents(elem,self)'), True)],
    'predecessors': [('G1 self-link', T.F_atom('same(elem,self)'), True),
                     ('G2 an ancestor as predecessor', T.F_atom('desc(self,elem)'), True),
                     ('G3 a descendant as predecessor', T.F_atom('desc(elem,self)'), True),
                     ('G4 dependency cycle', T.F_atom('tpred(self,elem)'), True)],
    'successors': [('G1 self-link', T.F_atom('same(elem,self)'), True),
                   ('G2 an ancestor as successor', T.F_atom('desc(self,elem)'), True),
                   ('G3 a descendant as successor', T.F_atom('desc(elem,self)'), True),
                   ('G4 dependency cycle', T.F_atom('tpred(elem,self)'), True)],
}


def guards(ctx, o, eff, name):
    prog = ctx.prog
    f = prog.func(SETTERS[name])
    writes = relation_write_nodes(ctx, f, eff)
    if not writes:
        o.fail(f"{f.qual}: no relation write found")
        return
    for cmp_, nm, gen in _exhausted_generator_tests(ctx, f):
        o.refute(f, cmp_, cmp_, f"`{src(cmp_)[:50]}` tests membership in `{nm}`, a generator ({unmangle(gen.name)}) created once before the loop: "
                                f"it is exhausted by the first test, every later element is compared with nothing and passes the guard")
    if name == 'children':
        writes = _without_symmetric_unlinks(f, writes)
        delegated = _attaches_only_through_parent_setter(ctx, f, eff)
        for label, R, needs_elem in REQ[name]:
            cap = _Capture()
            T.require(ctx, cap, f, label, R, writes, eff, needs_elem)
            if cap.sites or not delegated:
                cap.replay(o)
            elif delegated == 'partly':
                o.undecided(f, f.node, label, f"[{label}] is left to the parent setter of each child (`child.parent = self`), but the children "
                                              f"setter also writes parent/child-list state directly (e.g. a roll-back): not covered by the argument")
            else:
                # not (or too late) rejected by the children setter itself, but every new child is attached by `child.parent = self`:
                # the parent setter rejects the same case for that child (C01.guards_parent), and what was written before is a symmetric
                # state.  The forest stays well-formed; that the rejected call changed something is C15.children_prevalidated.
                o.site(f, f.node, f"{label}: enforced per child by the parent setter every new child goes through")
        return
    for label, R, needs_elem in REQ[name]:
        T.require(ctx, o, f, label, R, writes, eff, needs_elem)
    if name in ('predecessors', 'successors'):
        _constructor_path(ctx, o, eff, name)


def _exhausted_generator_tests(ctx, f):
    """[(compare node, local name, generator func)]: `x in g` inside a loop where g is a local bound OUTSIDE that loop to the result
    of calling a generator function (one-shot iterator reused for every element)"""
    cfg = cfg_of(f)
    fl = flow_of(f)
    targets = {}
    for ci in ctx.cg.calls_in(f):
        targets[id(ci.node)] = [t for t in ci.targets if t is not None]
    out = []
    for n in walk_no_nested(f.node):
        if not (isinstance(n, ast.Compare) and len(n.ops) == 1 and isinstance(n.ops[0], (ast.In, ast.NotIn)) and
                isinstance(n.comparators[0], ast.Name)):
            continue
        cn = cfg.node_containing(n)
        if cn is None or not cfg.enclosing_fors(cn):
            continue
        d = fl.unique_def(n.comparators[0].id, cn)
        if d is None or d.kind != 'assign' or not isinstance(d.value, ast.Call) or d.node is None:
            continue
        if any(fo in cfg.enclosing_fors(d.node) for fo in cfg.enclosing_fors(cn)) and cfg.enclosing_fors(d.node) == cfg.enclosing_fors(cn):
            continue        # created anew in every round
        gens = [t for t in targets.get(id(d.value), []) if any(isinstance(x, (ast.Yield, ast.YieldFrom)) for x in walk_no_nested(t.node))]
        if gens and len(gens) == len(targets.get(id(d.value), [])):
            out.append((n, n.comparators[0].id, gens[0]))
    return out


class _Capture:
    """stands in for an Obligation while a requirement is evaluated; the result is replayed or reinterpreted"""

    def __init__(self):
        self.sites, self.refuted, self.unknown = [], [], []

    def site(self, *a, **k):
        self.sites.append((a, k))

    def refute(self, *a, **k):
        self.refuted.append((a, k))

    def undecided(self, *a, **k):
        self.unknown.append((a, k))

    def replay(self, o):
        for a, k in self.sites:
            o.site(*a, **k)
        for a, k in self.refuted:
            o.refute(*a, **k)
        for a, k in self.unknown:
            o.undecided(*a, **k)


def _attaches_only_through_parent_setter(ctx, f, eff):
    """the children setter gives a task to a parent only by `x.parent = self` (at least once) - no direct store of a non-None
    __parent, no direct insertion into a child list"""
    s = f.self_name
    via = [st for st, tgt, val in facts.attr_stores(f, 'parent') if isinstance(val, ast.Name) and val.id == s]
    if not via:
        return False
    return 'partly' if not _no_direct_attach(f, eff) else True


def _no_direct_attach(f, eff) -> bool:
    for w in eff.direct_writes(f):
        if w.field == '_Task__parent' and w.kind == 'store':
            v = None
            for n in walk_no_nested(f.node):
                if isinstance(n, ast.Assign) and any(x is w.node for t in n.targets for x in ast.walk(t)) or n is w.node and isinstance(n, ast.Assign):
                    v = n.value
            if not (isinstance(v, ast.Constant) and v.value is None):
                return False
        if w.field == '_Task__children' and w.kind != 'store' and any(k in w.kind for k in ('append', 'insert', 'extend', '__setitem__')):
            return False
        if w.field == '_Task__children' and w.kind == 'store':
            return False
    return True


def _without_symmetric_unlinks(f, writes):
    """a child taken out of self.__children together with `child.__parent = None` (same loop round) leaves the forest well-formed at
    once: such a pair may come before a rejection as far as C01 is concerned (that the rejected call changed something is C15)"""
    cfg = cfg_of(f)
    s = f.self_name
    drop = set()
    for cn, node, desc in writes:
        m = match(f"{s}._Task__children.remove($v)", node) if isinstance(node, ast.Call) else None
        if not (m and isinstance(m['v'], ast.Name)):
            continue
        v = m['v'].id
        fors = cfg.enclosing_fors(cn)
        conds = [id(t) for t, p in cfg.conditions(cn)]
        for cn2, node2, desc2 in writes:
            st = node2 if isinstance(node2, ast.Assign) else None
            tg = None
            if isinstance(node2, ast.Attribute):
                tg = node2
            elif st is not None and len(st.targets) == 1:
                tg = st.targets[0]
            if isinstance(tg, ast.Attribute) and tg.attr == '_Task__parent' and isinstance(tg.value, ast.Name) and tg.value.id == v and \
                    fors and cfg.enclosing_fors(cn2) == fors and [id(t) for t, p in cfg.conditions(cn2)] == conds:
                val = _stored_none(f, tg)
                if val:
                    drop.add(id(node))
                    drop.add(id(node2))
    return [w for w in writes if id(w[1]) not in drop]


def _stored_none(f, target) -> bool:
    for n in walk_no_nested(f.node):
        if isinstance(n, ast.Assign) and any(t is target for t in n.targets) or (isinstance(n, ast.Assign) and n is target):
            return isinstance(n.value, ast.Constant) and n.value.value is None
    return False


def _constructor_path(ctx, o, eff, name):
    """the constructor is an owner of the link fields only for their initial empty values.  When the body of a dependency setter
    reaches it another way (a private helper with switches, spliced in by the normaliser), the same rejections must hold there
    for the constructor's own argument, before the first write of that block"""
    prog = ctx.prog
    mine = '_Task__' + name
    other = '_Task__successors' if name == 'predecessors' else '_Task__predecessors'
    f = prog.func('task.Task.__init__')
    cfg = cfg_of(f)
    s_ = f.self_name
    ex = Expander(prog, f, ctx.typer, inline=False)
    for st, tgt, val in facts.attr_stores(f, mine):
        if not (isinstance(tgt.value, ast.Name) and tgt.value.id == s_):
            continue
        if (isinstance(val, (ast.List, ast.Tuple)) and not val.elts) or (isinstance(val, ast.Constant) and val.value is None) or \
                match("list()", val) or match("[]", val):
            continue
        vx = ex.expand(val, cfg.node_of(st))
        params = sorted({n.id for n in ast.walk(vx) if isinstance(n, ast.Name) and n.id in f.params and n.id != s_})
        if len(params) != 1:
            o.undecided(f, st, st, f"the constructor stores `{src(vx)[:60]}` into {unmangle(mine)}: not traceable to one constructor argument")
            continue
        writes = []
        for w in eff.direct_writes(f):
            if (w.field == mine and w.node is st) or (w.field == mine and w.kind == 'store' and any(x is w.node for x in ast.walk(st))) or \
                    (w.field == other and w.kind != 'store' and w.root != 'self'):
                cn = cfg.node_containing(w.node) or cfg.node_of(w.node)
                if cn is not None:
                    writes.append((cn, w.node, f"{w.kind} of {unmangle(w.field)}"))
        if not writes:
            writes = [(cfg.node_of(st), st, f"store of {unmangle(mine)}")]
        with T.arg_role(f, params[0]):
            for label, R, needs_elem in REQ[name]:
                T.require(ctx, o, f, f"{label} - on the constructor path (Task(.., {params[0]}=..) writes the links without the public setter)",
                          R, writes, eff, needs_elem)


def _role_text(f, u, g):
    r = Roles(None, f, None)
    return r.render(u, g.extra)


# ----------------------------------------------------------------------------------------------------------------------
# list-valued expressions as collections of parts

_LIST_MUT = {'append', 'extend', 'insert', 'remove', 'pop', 'clear', 'sort', 'reverse', '__setitem__', '__delitem__'}


class _Parts:
    """resolves a list-valued expression into parts ('one', e): the single element e / ('all', e): every element of e.
    Understands `+`, list displays (with *x), identity comprehensions, list()/tuple()/set()/.copy()/[:] copies, itertools.chain and
    locals that are built by a literal followed by straight-line .append/.extend/+= (read after the last of them)."""

    def __init__(self, ctx, f):
        self.ctx, self.f = ctx, f
        self.cfg = cfg_of(f)
        self.fl = flow_of(f)
        self.ex = Expander(ctx.prog, f, ctx.typer, inline=True)

    def parts(self, e, at, depth=0):
        """list of (kind, expr) or None when the value is not understood"""
        if depth > 10 or e is None or at is None:
            return None
        if isinstance(e, ast.BinOp) and isinstance(e.op, (ast.Add, ast.BitOr)):
            l, r = self.parts(e.left, at, depth + 1), self.parts(e.right, at, depth + 1)
            return None if l is None or r is None else l + r
        if isinstance(e, (ast.List, ast.Tuple, ast.Set)):
            out = []
            for x in e.elts:
                if isinstance(x, ast.Starred):
                    p = self.parts(x.value, at, depth + 1)
                    if p is None:
                        return None
                    out += p
                else:
                    out.append(('one', self.ex.expand(x, at)))
            return out
        if isinstance(e, (ast.ListComp, ast.GeneratorExp, ast.SetComp)) and len(e.generators) == 1:
            g = e.generators[0]
            if isinstance(e.elt, ast.Name) and isinstance(g.target, ast.Name) and e.elt.id == g.target.id and not g.ifs:
                return self.parts(g.iter, at, depth + 1)
            return None
        m = match("list($x)", e) or match("tuple($x)", e) or match("set($x)", e) or match("$x.copy()", e) or match("$x[:]", e) or \
            match("frozenset($x)", e) or match("iter($x)", e)
        if m:
            return self.parts(m['x'], at, depth + 1)
        if isinstance(e, ast.Call) and ((isinstance(e.func, ast.Name) and e.func.id == 'chain') or
                                        (isinstance(e.func, ast.Attribute) and e.func.attr == 'chain')) and not e.keywords:
            out = []
            for x in e.args:
                p = self.parts(x, at, depth + 1)
                if p is None:
                    return None
                out += p
            return out
        if isinstance(e, ast.Name):
            return self._name(e, at, depth)
        if isinstance(e, ast.Attribute) and attr_path_ok(e):
            x = self.ex.expand(e, at)
            if isinstance(x, ast.Attribute) and attr_path_ok(x):
                return [('all', x)]
            return self.parts(x, at, depth + 1) if not same(x, e) else [('all', x)]
        if isinstance(e, ast.Call):
            x = self.ex.expand(e, at)
            if not same(x, e):
                return self.parts(x, at, depth + 1)
            via = self._callee_parts(e, at, depth)
            if via is not None:
                return via
            return [('all', x)]
        return None

    def _callee_parts(self, call, at, depth):
        """parts of `g(a, ..)` for a non-recursive module function g whose single return value is a list it builds from its parameters
        (literal + extend/append): the callee's parts with the arguments substituted"""
        if not isinstance(call.func, ast.Name) or call.keywords or depth > 6:
            return None
        g = self.ctx.prog.funcs.get(f"{self.f.module.name}.{call.func.id}")
        if g is None or g is self.f or len(g.params) != len(call.args):
            return None
        if any(isinstance(n, ast.Call) and isinstance(n.func, ast.Name) and n.func.id == g.name for n in ast.walk(g.node)):
            return None
        rets = [n for n in walk_no_nested(g.node) if isinstance(n, ast.Return)]
        if len(rets) != 1 or rets[0].value is None:
            return None
        inner = _Parts(self.ctx, g)
        ps = inner.parts(rets[0].value, cfg_of(g).node_of(rets[0]), depth + 1)
        if ps is None:
            return None
        sub = {p: self.ex.expand(a, at) for p, a in zip(g.params, call.args)}
        from sa.flow import subst
        return [(k, subst(pe, sub)) for k, pe in ps]

    def _name(self, e, at, depth):
        name = e.id
        ds = self.fl.reaching(name, at)
        if len(ds) != 1:
            return None
        d = ds[0]
        if d.kind in ('param', 'for'):
            return [('all', e)]
        if d.kind == 'aug' and isinstance(d.stmt.op, ast.Add) and d.node is not at:
            prev = self._name(e, d.node, depth + 1)
            inc = self.parts(d.stmt.value, d.node, depth + 1)
            pd = self.fl.reaching(name, d.node)
            # the increment runs once after the previous definition: same loops, same conditions
            if prev is None or inc is None or len(pd) != 1 or pd[0].node is None or \
                    self.cfg.enclosing_fors(d.node) != self.cfg.enclosing_fors(pd[0].node) or \
                    [id(t) for t, p in self.cfg.conditions(d.node)] != [id(t) for t, p in self.cfg.conditions(pd[0].node)]:
                return None
            return prev + inc
        if d.kind != 'assign' or d.value is None or d.node is None or d.node is at:
            return None
        out = self.parts(d.value, d.node, depth + 1)
        if out is None:
            return None
        # in-place growth between the definition and the use
        muts = []
        for n in walk_no_nested(self.f.node):
            if isinstance(n, ast.Call) and isinstance(n.func, ast.Attribute) and isinstance(n.func.value, ast.Name) and \
                    n.func.value.id == name and n.func.attr in _LIST_MUT:
                mn = self.cfg.node_containing(n)
                if mn is None or mn is at:
                    return None
                if not self.cfg.can_reach(mn, at) or not self.cfg.can_reach(d.node, mn):
                    continue            # after the use / before the (re)definition
                muts.append((mn, n))
        muts.sort(key=lambda x: getattr(x[1], 'lineno', 0))
        for mn, n in muts:
            same_conds = [id(t) for t, p in self.cfg.conditions(mn)] == [id(t) for t, p in self.cfg.conditions(d.node)]
            fors_m, fors_d = self.cfg.enclosing_fors(mn), self.cfg.enclosing_fors(d.node)
            # `for v in X: name.append(v)` (unconditional, one loop deeper than the definition, finished before the use)
            if same_conds and len(fors_m) == len(fors_d) + 1 and fors_m[:len(fors_d)] == fors_d and n.func.attr == 'append' and \
                    len(n.args) == 1 and not n.keywords:
                lp = fors_m[-1]
                hdr = self.cfg.node_of(lp)
                if isinstance(lp.target, ast.Name) and isinstance(n.args[0], ast.Name) and n.args[0].id == lp.target.id and \
                        hdr is not None and self.cfg.dominates(hdr, at) and at is not mn and not self.cfg.can_reach(at, hdr) and \
                        not any(isinstance(x, (ast.Break, ast.Continue, ast.Return, ast.Raise)) for b in lp.body for x in ast.walk(b)):
                    p = self.parts(lp.iter, hdr, depth + 1)
                    if p is None:
                        return None
                    out = out + p
                    continue
                return None
            same_ctx = same_conds and fors_m == fors_d
            if not same_ctx or not self.cfg.dominates(mn, at) or n.keywords:
                return None
            if n.func.attr == 'extend' and len(n.args) == 1:
                p = self.parts(n.args[0], mn, depth + 1)
                if p is None:
                    return None
                out = out + p
            elif n.func.attr == 'append' and len(n.args) == 1:
                out = out + [('one', self.ex.expand(n.args[0], mn))]
            elif n.func.attr == 'insert' and len(n.args) == 2:
                out = out + [('one', self.ex.expand(n.args[1], mn))]
            else:
                return None
        return out


def attr_path_ok(e) -> bool:
    while isinstance(e, ast.Attribute):
        e = e.value
    return isinstance(e, ast.Name)


def _rename(e, names):
    e2 = copy.deepcopy(e)

    class R(ast.NodeTransformer):
        def visit_Name(self, n):
            return ast.Name(id=names[n.id], ctx=ast.Load()) if n.id in names else n
    return R().visit(e2)


def _canon_part(kind, e, names):
    t = src(_rename(e, names))
    t = re.sub(r"\._Task__get_all_(\w+)\(\)", r".all_\1", t)
    t = re.sub(r"\._Task__(predecessors|successors)\b", r".\1", t)
    simple = re.fullmatch(r"[A-Za-z_<>]\w*>?(\.\w+)*", t) is not None
    return (kind, t), simple


class _Chain:
    """one way the predicate answers True: exists binders such that all tests hold"""

    def __init__(self, node):
        self.node = node
        self.binders = []       # (target ast, iterable ast, cfg node at which the iterable is read)
        self.tests = []         # (test ast, polarity, cfg node)


def _exists_chains(ctx, f):
    """([_Chain], [false returns]) of a boolean helper: every `return <true>` under its loops and conditions, `return <expr>` with
    any()/exists-forms unfolded into binders"""
    cfg = cfg_of(f)
    chains, falses = [], []

    def unfold(ch, t, pol, at):
        for a, q in facts.split_conj(t, pol):
            gen = None
            if q:
                m = match("any($c)", a)
                if m and isinstance(m['c'], (ast.GeneratorExp, ast.ListComp)):
                    gen = (m['c'], True)
                else:
                    m = match("len($c) > 0", a) or match("len($c) != 0", a) or match("len($c) >= 1", a) or match("bool($c)", a)
                    if m and isinstance(m['c'], (ast.ListComp, ast.SetComp, ast.GeneratorExp)):
                        gen = (m['c'], False)
                    elif isinstance(a, ast.ListComp):
                        gen = (a, False)
            if gen is None:
                ch.tests.append((a, q, at))
                continue
            comp, with_elt = gen
            for g in comp.generators:
                ch.binders.append((g.target, g.iter, at))
                for c in g.ifs:
                    unfold(ch, c, True, at)
            if with_elt:
                unfold(ch, comp.elt, True, at)

    def answer(r, rn, v, extra):
        if isinstance(v, ast.Constant):
            if v.value:
                start(r, rn, extra)
            else:
                falses.append((r, extra))
            return
        if isinstance(v, ast.IfExp):
            answer(r, rn, v.body, extra + [(v.test, True)])
            answer(r, rn, v.orelse, extra + [(v.test, False)])
            return
        if isinstance(v, ast.BoolOp) and isinstance(v.op, ast.Or):
            for x in v.values:
                answer(r, rn, x, extra)
            return
        start(r, rn, extra + [(v, True)])

    def start(r, rn, extra):
        ch = _Chain(r)
        for fo in cfg.enclosing_fors(rn):
            ch.binders.append((fo.target, fo.iter, cfg.node_of(fo)))
        for t, p in cfg.conditions(rn):
            # residues of earlier exits (`if c: return ..` that did not fire) do not belong to this answer: what they answer is
            # judged on its own (another chain / an early False)
            holder = next((n for n in walk_no_nested(f.node) if isinstance(n, (ast.If, ast.While)) and n.test is t), None)
            if holder is not None and not any(x is r for x in ast.walk(holder)):
                branch = holder.body if not p else holder.orelse        # the branch that was NOT taken on the way to r
                if branch and isinstance(branch[-1], (ast.Return, ast.Raise)):
                    continue
            unfold(ch, t, p, cfg.node_containing(t))
        for t, p in extra:
            unfold(ch, t, p, rn)
        chains.append(ch)

    for r in [n for n in walk_no_nested(f.node) if isinstance(n, ast.Return)]:
        rn = cfg.node_of(r)
        if rn is None or not cfg.is_reachable(rn):
            continue
        answer(r, rn, r.value if r.value is not None else ast.Constant(value=None), [])
    return chains, falses


def dep_helper(ctx, o):
    prog = ctx.prog
    f = prog.func('task._has_dependency_with_parents')
    a, b = f.params[0], f.params[1]
    cfg = cfg_of(f)
    P = _Parts(ctx, f)
    chains, falses = _exists_chains(ctx, f)
    if not chains:
        o.undecided(f, f.node, f.name, "the helper never answers True in a form the rule recognises")
        return
    want_T = {('one', 'TASK'), ('all', 'TASK.all_children')}
    want_L = {('all', 'T.predecessors'), ('all', 'T.successors')}
    want_F = {('one', 'PARENT'), ('all', 'PARENT.all_parents')}
    required = {(x, y, z) for x in want_T for y in want_L for z in want_F}
    covered, problems, loop_hdrs, extras = set(), [], [], set()
    for ch in chains:
        r = _chain_triples(ctx, f, P, ch, a, b)
        if isinstance(r, str):
            problems.append((ch, r))
            continue
        triples, hdr = r
        covered |= triples & required
        extras |= triples - required
        loop_hdrs.append(hdr)
    missing = required - covered
    inv = [(ch, why) for ch, why in problems if why.startswith('INVERTED')]
    if inv and missing:
        o.refute(f, inv[0][0].node, 'inverted membership test', inv[0][1][10:] + ": a link with an ancestor of the new parent is accepted, "
                                                                               "an unrelated link is rejected")
        return
    if problems and missing:
        ch, why = problems[0]
        o.undecided(f, ch.node, f.name, f"a True answer of the helper is not understood: {why}")
        return
    if missing:
        def says(s, kind, txt):
            return (kind, txt) in s
        cT, cL, cF = {t[0] for t in covered | extras}, {t[1] for t in covered | extras}, {t[2] for t in covered | extras}
        scanned = ', '.join(sorted(x[1] for x in cT)) or '?'
        if ('all', 'TASK.all_children') not in cT:
            o.refute(f, f.node, 'scanned subtree', f"the helper scans `{scanned}` (TASK = {a}); expected the task and all its descendants "
                     f"([{a}] + {a}.all_children): a linked grandchild would be missed")
        elif ('one', 'TASK') not in cT:
            o.refute(f, f.node, 'scanned subtree', f"the helper scans `{scanned}` (TASK = {a}) but not the moved task itself")
        elif not want_L <= cL:
            o.refute(f, f.node, 'scanned links', f"the helper looks at `{', '.join(sorted(x[1] for x in cL))}`; expected predecessors and "
                     f"successors of every scanned task")
        elif not want_F <= cF:
            o.refute(f, f.node, 'compared with', f"links are compared with `{', '.join(sorted(x[1] for x in cF))}` (PARENT = {b}); expected "
                     f"the new parent and all its ancestors")
        else:
            ms = sorted(missing)[0]
            o.refute(f, f.node, 'combination', f"the combination {ms[0][1]} x {ms[1][1]} x {ms[2][1]} is never tested")
        return
    # an answer `False` before the scan was finished
    for r, extra in falses:
        rn = cfg.node_of(r)
        early = [h for h in loop_hdrs if h is not None and h is not rn and not cfg.dominates(h, rn)]
        before_expr = []
        if early or before_expr:
            conds = facts.node_conditions(prog, f, r, ctx.typer, expand=False) + [x for t, p in extra for x in facts.split_conj(t, p)]
            if conds and all(facts.cond_is(t, p, f"{b} is None", True) is not None for t, p in conds):
                continue
            mentions = ' '.join(src(t) for t, p in conds)
            if 'children' in mentions:
                o.undecided(f, r, r, f"early answer under {facts.cond_texts(conds)} involves the children: not decided")
                return
            o.refute(f, r, r, f"the helper answers `{src(r.value) if r.value is not None else 'None'}` before it scanned the subtree (under "
                              f"{facts.cond_texts(conds)}): links of descendants are not checked on that path")
            return
    if extras:
        o.undecided(f, f.node, f.name, f"the helper also rejects combinations outside the specification: {sorted(extras)[0]}")
        return
    o.site(f, f.node, "task + all_children x (predecessors + successors) against new_parent + all_parents")


def _chain_triples(ctx, f, P, ch, a, b):
    """set of (T part, L part, F part) triples the chain tests, and the cfg node of its outermost binder; or a text why not"""
    cfg = cfg_of(f)
    bvars = {}
    for tgt, it, at in ch.binders:
        if not isinstance(tgt, ast.Name):
            return "binder with a structured target"
        bvars[tgt.id] = (it, at)
    pair, others = None, []
    for t, pol, at in ch.tests:
        t2, p2 = facts.norm_cond(t, pol)
        m = match("$x in $s", t2)
        if m and p2 and isinstance(m['x'], ast.Name) and m['x'].id in bvars and pair is None:
            pair = (m['x'].id, None, m['s'], at)
            continue
        if m and not p2 and isinstance(m['x'], ast.Name) and m['x'].id in bvars and len(ch.tests) == 1:
            return f"INVERTED: the helper answers True when `{src(t2)}` is FALSE"
        m = match("$x is $y", t2) or match("$x == $y", t2)
        if m and p2 and isinstance(m['x'], ast.Name) and isinstance(m['y'], ast.Name) and m['x'].id in bvars and m['y'].id in bvars \
                and pair is None:
            pair = (m['x'].id, m['y'].id, None, at)
            continue
        m = match("not $x.isdisjoint($y)", t if pol else ast.UnaryOp(op=ast.Not(), operand=t))
        if m and pair is None:
            pair = (None, None, (m['x'], m['y']), at)
            continue
        others.append((t, pol))
    if pair is None:
        return "no membership test between links and ancestors"
    if others:
        return "additional conditions restrict the answer: " + ', '.join(facts.cond_texts(others))
    used = set()
    if pair[0] is None:
        X, S = (pair[2][0], pair[3]), (pair[2][1], pair[3])
    else:
        X = bvars[pair[0]]
        used.add(pair[0])
        if pair[1] is not None:
            S = bvars[pair[1]]
            used.add(pair[1])
        else:
            S = (pair[2], pair[3])
    rest = [v for v in bvars if v not in used]
    if len(rest) != 1:
        return f"{len(rest)} outer binders (expected one loop over the scanned tasks)"
    tv = rest[0]
    T = bvars[tv]

    def mentions(e, name):
        return any(isinstance(n, ast.Name) and n.id == name for n in ast.walk(e))
    # which side is the link list (depends on the scanned task), which the forbidden set
    xs_t = mentions(X[0], tv) or _resolves_mention(P, X, tv)
    ss_t = mentions(S[0], tv) or _resolves_mention(P, S, tv)
    if xs_t == ss_t:
        return "cannot tell the link side from the ancestor side"
    L, F = (X, S) if xs_t else (S, X)
    names = {a: 'TASK', b: 'PARENT', tv: 'T'}
    sets = []
    for what, (e, at) in (('scanned tasks', T), ('links', L), ('ancestors', F)):
        ps = P.parts(e, at)
        if ps is None:
            return f"the {what} expression `{src(e)[:60]}` is not understood"
        cs = set()
        for kind, pe in ps:
            c, simple = _canon_part(kind, pe, names)
            if not simple:
                return f"part `{c[1][:60]}` of the {what} is not an attribute path"
            cs.add(c)
        sets.append(cs)
    triples = {(x, y, z) for x in sets[0] for y in sets[1] for z in sets[2]}
    # the node at which this answer is decided: the outermost loop / the statement holding the any(..)
    return triples, ch.binders[0][2]


def _resolves_mention(P, side, name):
    ps = P.parts(side[0], side[1])
    return bool(ps) and any(any(isinstance(n, ast.Name) and n.id == name for n in ast.walk(pe)) for _, pe in ps)


def _walk_form(ctx, f, raw, pub):
    """how method f of Task enumerates the transitive closure of the relation `raw`.
    -> ('ok', func, node, note) | ('bad', func, node, construct, msg) | ('unknown', func, node, msg)"""
    prog = ctx.prog
    what = unmangle(f.name)
    # the direct links of a task: the raw private list, or the public facade over it (same elements, same order)
    rels = sorted({raw, pub, '_Task__' + pub})
    # walker candidates: functions nested in f, and module functions / static methods f calls with the task itself as first argument
    # (further parameters bound to constants at that call, e.g. the name of the link attribute)
    cands = [(g, {}, None) for g in prog.all_funcs() if g.parent is f and not isinstance(g.node, ast.Lambda)]
    for ci in ctx.cg.calls_in(f):
        c = ci.node
        if ci.kind != 'call' or not isinstance(c, ast.Call) or not c.args or not (isinstance(c.args[0], ast.Name) and c.args[0].id == f.self_name):
            continue
        for g in ci.targets:
            if g is None or g is f or g.parent is f or not g.params or g.kind not in ('function', 'static'):
                continue
            consts = {}
            for prm, arg in zip(g.params[1:], facts.bound_args(c, g, drop_self=False)[1:]):
                if isinstance(arg, ast.Constant):
                    consts[prm] = arg.value
                elif isinstance(arg, ast.Lambda) and len(arg.args.args) == 1:
                    consts[prm] = arg                # the accessor of the direct links, e.g. lambda t: t.predecessors
            cands.append((g, consts, c))
            # the helper may in turn hold the walker as a nested function started with the helper's own first parameter
            for g2 in prog.all_funcs():
                if g2.parent is g and g2.params and any(
                        isinstance(n, ast.Call) and isinstance(n.func, ast.Name) and n.func.id == g2.name and n.args and
                        isinstance(n.args[0], ast.Name) and n.args[0].id == g.params[0] for n in walk_no_nested(g.node)):
                    cands.append((g2, consts, c))
    # generator METHODS of the task called as self.m(): the walked task is the method's own receiver, the recursion is v.m()
    method_form = set()
    for ci in ctx.cg.calls_in(f):
        c = ci.node
        if ci.kind == 'call' and isinstance(c, ast.Call) and isinstance(c.func, ast.Attribute) and isinstance(c.func.value, ast.Name) and \
                c.func.value.id == f.self_name and all(isinstance(a, ast.Name) for a in c.args) and not c.keywords:
            for g in ci.targets:
                if g is not None and g is not f and g.kind == 'method' and g.cls == f.cls and g.self_name:
                    cands.append((g, {}, c))
                    method_form.add(id(g))
    for g, consts, start_call in cands:
        if not g.params:
            continue
        p = g.params[0]

        def is_rec(call, v=None, g=g):
            fn = call.func
            if id(g) in method_form:
                # further arguments (an accumulator handed down) must be the method's own parameters, passed on unchanged
                return isinstance(fn, ast.Attribute) and unmangle(fn.attr) == unmangle(g.name) and isinstance(fn.value, ast.Name) and \
                    (v is None or fn.value.id == v) and \
                    [a.id if isinstance(a, ast.Name) else None for a in call.args] == list(g.params[1:1 + len(call.args)]) and \
                    len(call.args) == len(g.params) - 1
            nm = fn.id if isinstance(fn, ast.Name) else (unmangle(fn.attr) if isinstance(fn, ast.Attribute) else None)
            if nm != unmangle(g.name) or not call.args:
                return False
            if v is not None and not (isinstance(call.args[0], ast.Name) and call.args[0].id == v):
                return False
            # constant parameters are passed on unchanged
            for prm, arg in zip(g.params[1:], facts.bound_args(call, g, drop_self=False)[1:]):
                if prm in consts and not (isinstance(arg, ast.Name) and arg.id == prm) and not \
                        (isinstance(arg, ast.Constant) and arg.value == consts[prm]):
                    return False
            return True

        def iter_ok(it):
            if any(match(f"{p}.{r_}", it) for r_ in rels):
                return True
            m = match(f"getattr({p}, $n)", it)
            if m:
                n = m['n']
                val = n.value if isinstance(n, ast.Constant) else (consts.get(n.id) if isinstance(n, ast.Name) else None)
                return val in rels
            m = match(f"$fn({p})", it)
            if m and isinstance(m['fn'], ast.Name) and isinstance(consts.get(m['fn'].id), ast.Lambda):
                lam = consts[m['fn'].id]
                a = lam.args.args[0].arg
                return any(match(f"{a}.{r_}", lam.body) for r_ in rels)
            return False
        rec_calls = [n for n in ast.walk(g.node) if isinstance(n, ast.Call) and is_rec(n)]
        for lp in [n for n in walk_no_nested(g.node) if isinstance(n, ast.For)]:
            if not (iter_ok(lp.iter) and isinstance(lp.target, ast.Name)):
                continue
            v = lp.target.id
            body = [s for s in lp.body if not (isinstance(s, ast.Expr) and isinstance(s.value, ast.Constant))]

            def skips_empty(test):
                return any(match(pat, test) for r_ in rels for pat in (f"{v}.{r_}", f"len({v}.{r_}) > 0", f"len({v}.{r_})"))
            # `if v.<rel>: yield from rec(v)` only skips an empty list: same as the unconditional step
            body = [(s.body[0] if isinstance(s, ast.If) and skips_empty(s.test) and len(s.body) == 1 and not s.orelse else s) for s in body]
            # leaving the loop early (return / break, typically "already visited"): the remaining elements of this task are never walked
            for st in body:
                for n in ast.walk(st):
                    if isinstance(n, (ast.Return, ast.Break)) and not isinstance(st, (ast.FunctionDef, ast.For, ast.While)):
                        return ('bad', g, st, st, f"{what} abandons the loop over t.{unmangle(raw)} (`{src(st)[:50].splitlines()[0]} ..`): the elements "
                                                  f"after that one are never walked, the closure is incomplete where chains join")
            # visited-set prelude: `if id(v) in seen: continue` + `seen.add(id(v))` only suppresses repeated visits
            def prelude(st):
                if isinstance(st, ast.If) and len(st.body) == 1 and isinstance(st.body[0], ast.Continue) and not st.orelse:
                    return bool(match(f"id({v}) in $s", st.test) or match(f"{v} in $s", st.test))
                if isinstance(st, ast.Expr) and (match(f"$s.add(id({v}))", st.value) or match(f"$s.add({v})", st.value)):
                    return True
                return False
            for st in body:
                if (isinstance(st, ast.If) and (match(f"{v}.id in $s", st.test) or match(f"{v}.id not in $s", st.test))) or \
                        (isinstance(st, ast.Expr) and match(f"$s.add({v}.id)", st.value)):
                    return ('bad', g, st, st, f"{what} remembers visited tasks by their id (`{src(st)[:50].splitlines()[0]}`): a different task that "
                                              f"shares its id with a visited one (ids are unique per WBS only) is skipped with everything behind "
                                              f"it, and the cycle guard misses the paths through it")
            body = [st for st in body if not prelude(st)]
            # list building recursion: acc.append(v); acc.extend(rec(v))
            ap = [i for i, st in enumerate(body) if isinstance(st, ast.Expr) and match(f"$acc.append({v})", st.value)]
            rc = []
            for i, st in enumerate(body):
                x = None
                if isinstance(st, ast.Expr) and match("$acc.extend($x)", st.value):
                    x = match("$acc.extend($x)", st.value)['x']
                elif isinstance(st, ast.AugAssign) and isinstance(st.op, ast.Add):
                    x = st.value
                if x is not None and any(isinstance(n, ast.Call) and is_rec(n, v) for n in ast.walk(x)):
                    rc.append(i)
                # accumulator handed down: acc.append(v); rec(v, acc) / v.rec(acc)
                if isinstance(st, ast.Expr) and isinstance(st.value, ast.Call) and is_rec(st.value, v) and \
                        any(isinstance(a, ast.Name) and a.id in g.params for a in st.value.args) and \
                        any(isinstance(b, ast.Expr) and (match(f"$acc.append({v})", b.value) or {}).get('acc') is not None and
                            isinstance(match(f"$acc.append({v})", b.value)['acc'], ast.Name) and
                            match(f"$acc.append({v})", b.value)['acc'].id in [a.id for a in st.value.args if isinstance(a, ast.Name)]
                            for b in body):
                    rc.append(i)
            if ap and rc:
                if ap[0] > rc[0]:
                    return ('bad', g, lp, lp, "descendants are collected before the task itself (not pre-order)")
                if len(body) == 2:
                    return ('ok', g, g.node, f"for x in t.{unmangle(raw)}: acc.append(x); acc.extend(rec(x))")
            if ap and not rc and not rec_calls:
                return ('bad', g, g.node, f.qual, f"{what} does not walk t.{unmangle(raw)} transitively: only the direct elements are collected")
            for st in body:
                if isinstance(st, ast.If) and any(isinstance(n, ast.Yield) and isinstance(n.value, ast.Name) and n.value.id == v
                                                  for n in ast.walk(st)):
                    return ('bad', g, st, st, f"{what} leaves out the elements for which `{src(st.test)[:60]}` fails: the closure is filtered, "
                                              f"the guards that rely on it miss those tasks")
            y = [i for i, s in enumerate(body) if isinstance(s, ast.Expr) and isinstance(s.value, ast.Yield) and
                 isinstance(s.value.value, ast.Name) and s.value.value.id == v]
            r = [i for i, s in enumerate(body) if isinstance(s, ast.Expr) and isinstance(s.value, ast.YieldFrom) and
                 isinstance(s.value.value, ast.Call) and is_rec(s.value.value, v)]
            if y and r and y[0] > r[0]:
                return ('bad', g, lp, lp, "descendants are yielded before the task itself (not pre-order)")
            # the recursive step under a condition: the closure is cut where the condition fails (unless it only skips empty lists)
            for st in body:
                if isinstance(st, ast.If):
                    inner = [n for n in ast.walk(st) if isinstance(n, ast.YieldFrom) and isinstance(n.value, ast.Call) and is_rec(n.value, v)]
                    harmless = skips_empty(st.test)
                    if inner and y and not harmless and not any(x is inner[0] for b in st.orelse for x in ast.walk(b)):
                        return ('bad', g, st, st, f"{what} only walks on from an element when `{src(st.test)[:60]}`: the transitive closure is cut "
                                                  f"there, and the guards that rely on it (cycle / ancestor checks) miss everything beyond")
            if y and not rec_calls:
                return ('bad', g, g.node, f.qual, f"{what} does not walk t.{unmangle(raw)} transitively (yield element, then recurse): only the "
                                                  f"direct elements are returned")
            if y and r and len(body) == 2:
                if start_call is None:
                    starts = [c for c in facts.calls_named(f, g.name) if c.args and isinstance(c.args[0], ast.Name) and c.args[0].id == f.self_name]
                    if not starts:
                        return ('bad', f, f.node, f.qual, "the closure does not start from the task itself")
                return ('ok', g, g.node, f"for x in t.{unmangle(raw)}: yield x; yield from rec(x)")
        if start_call is None:
            return ('unknown', g, g.node, f"nested walker of {what} in an unrecognised form")
    # direct recursion building a list:  for v in self.<raw>: acc.append(v); acc.extend(v.<same>())
    s = f.self_name
    self_calls = [n for n in ast.walk(f.node) if isinstance(n, ast.Call) and isinstance(n.func, ast.Attribute) and
                  unmangle(n.func.attr) == unmangle(f.name)]
    pub_all = {'children': 'all_children', 'predecessors': 'all_predecessors', 'successors': 'all_successors'}[pub]
    for lp in [n for n in walk_no_nested(f.node) if isinstance(n, ast.For)]:
        if not (any(match(f"{s}.{r_}", lp.iter) for r_ in rels) and isinstance(lp.target, ast.Name)):
            continue
        v = lp.target.id
        ap, rc = [], []
        for i, st in enumerate(lp.body):
            m = match(f"$acc.append({v})", st.value) if isinstance(st, ast.Expr) else None
            if m:
                ap.append((i, src(m['acc'])))
            x = None
            if isinstance(st, ast.Expr):
                m = match("$acc.extend($x)", st.value)
                if m:
                    x = (src(m['acc']), m['x'])
            elif isinstance(st, ast.AugAssign) and isinstance(st.op, ast.Add):
                x = (src(st.target), st.value)
            if x is not None:
                callee_ok = any(isinstance(n, ast.Call) and isinstance(n.func, ast.Attribute) and unmangle(n.func.attr) == unmangle(f.name)
                                and isinstance(n.func.value, ast.Name) and n.func.value.id == v for n in ast.walk(x[1])) or \
                    any(isinstance(n, ast.Attribute) and n.attr == pub_all and isinstance(n.value, ast.Name) and n.value.id == v
                        for n in ast.walk(x[1]))
                if callee_ok:
                    rc.append((i, x[0]))
        if ap and rc and ap[0][1] == rc[0][1]:
            if ap[0][0] > rc[0][0]:
                return ('bad', f, lp, lp, "descendants are collected before the task itself (not pre-order)")
            if len(lp.body) == 2:
                return ('ok', f, f.node, f"for x in self.{unmangle(raw)}: acc.append(x); acc.extend(x.{what}())")
        if ap and not rc and not self_calls and not any(isinstance(n, ast.Attribute) and n.attr == pub_all for n in ast.walk(f.node)):
            return ('bad', f, f.node, f.qual, f"{what} does not walk self.{unmangle(raw)} transitively: only the direct elements are collected")
    # explicit stack, pre-order:  pending = list(reversed(self.<raw>)); while pending: cur = pending.pop(); acc.append(cur);
    #                             pending.extend(reversed(cur.<raw>))
    def rev_of(e, owner):
        m = match("list(reversed($x))", e) or match("reversed($x)", e) or match("$x[::-1]", e) or match("list($x)[::-1]", e)
        return bool(m and any(match(f"{owner}.{r_}", m['x']) for r_ in rels))
    fl = flow_of(f)
    for w in [n for n in walk_no_nested(f.node) if isinstance(n, ast.While)]:
        t = w.test
        stack = t.id if isinstance(t, ast.Name) else (match("len($s) > 0", t) or match("len($s)", t) or match("len($s) != 0", t) or {}).get('s')
        stack = stack.id if isinstance(stack, ast.Name) else stack
        if not isinstance(stack, str):
            continue
        inits = [d for d in fl.defs_of(stack) if d.kind == 'assign' and d.value is not None]
        pops = [st for st in w.body if isinstance(st, ast.Assign) and len(st.targets) == 1 and isinstance(st.targets[0], ast.Name) and
                match(f"{stack}.pop()", st.value)]
        if len(inits) != 1 or len(pops) != 1:
            continue
        cur = pops[0].targets[0].id
        apps = [st for st in w.body if isinstance(st, ast.Expr) and match(f"$acc.append({cur})", st.value)]
        pushes = [st for st in w.body if (isinstance(st, ast.Expr) and match(f"{stack}.extend($x)", st.value)) or
                  (isinstance(st, ast.AugAssign) and match(stack, st.target))]
        if not apps:
            continue
        if not pushes:
            return ('bad', f, w, w, f"{what} pops the tasks of self.{unmangle(raw)} from a work list but never pushes their own "
                                    f"{unmangle(raw)}: only the direct elements are collected")
        px = match(f"{stack}.extend($x)", pushes[0].value)['x'] if isinstance(pushes[0], ast.Expr) else pushes[0].value
        if rev_of(inits[0].value, s) and rev_of(px, cur) and len(pushes) == 1 and len(apps) == 1 and len(w.body) == 3:
            return ('ok', f, w, "explicit stack: pop, collect, push the reversed children (depth-first pre-order)")
    return ('unknown', f, f.node, f"{what}: closure helper in an unrecognised form")


def closure(ctx, o):
    prog = ctx.prog
    specs = [('task.Task.__get_all_children', '_Task__children', 'children'),
             ('task.Task.__get_all_predecessors', 'predecessors', 'predecessors'),
             ('task.Task.__get_all_successors', 'successors', 'successors')]
    for q, raw, pub in specs:
        f = prog.funcs.get(q)
        if f is None:
            # the private helper was folded away: the public getter computes the closure itself (through whatever it calls)
            f = prog.funcs.get('task.Task.all_' + pub) or prog.func(q)
        r = _walk_form(ctx, f, raw, pub)
        if r[0] == 'ok':
            o.site(r[1], r[2], r[3])
        elif r[0] == 'bad':
            o.refute(r[1], r[2], r[3], r[4])
        else:
            o.undecided(r[1], r[2], q, r[3])
    # all_parents
    f = prog.func('task.Task.__get_all_parents')
    g = next((x for x in prog.all_funcs() if x.parent is f), None)
    s = f.self_name
    done = False
    ext_start = False
    if g is None:
        # the walker as a module function / static method called with the task's parent
        for ci in ctx.cg.calls_in(f):
            c = ci.node
            if ci.kind == 'call' and isinstance(c, ast.Call) and len(c.args) == 1 and \
                    (match(f"{s}._Task__parent", c.args[0]) or match(f"{s}.parent", c.args[0])):
                for t in ci.targets:
                    if t is not None and t is not f and t.kind in ('function', 'static') and len(t.params) == 1 and g is None:
                        g, ext_start = t, True
    if g is not None and g.params:
        p = g.params[0]

        def calls_g(n, arg_pats):
            if not (isinstance(n, ast.Call) and len(n.args) == 1):
                return False
            nm = n.func.id if isinstance(n.func, ast.Name) else (unmangle(n.func.attr) if isinstance(n.func, ast.Attribute) else None)
            return nm == unmangle(g.name) and (arg_pats is None or any(match(a, n.args[0]) for a in arg_pats))
        rec = any(calls_g(n, (f"{p}.parent", f"{p}._Task__parent")) for n in ast.walk(g.node))
        any_rec = any(calls_g(n, None) for n in ast.walk(g.node))
        yld = any(isinstance(n, ast.Yield) and isinstance(n.value, ast.Name) and n.value.id == p for n in ast.walk(g.node))
        start = ext_start or any(calls_g(n, (f"{s}._Task__parent", f"{s}.parent")) for n in ast.walk(f.node))
        if rec and yld and start:
            o.site(g, g.node, "yield t; recurse on t.parent, starting at the task's parent")
            done = True
        elif yld and not any_rec:
            o.refute(g, g.node, f.qual, "all_parents does not walk the whole parent chain starting at the direct parent")
            done = True
    if not done:
        # generator method:  def m(self): x = self.parent; if x is None ..: return; yield x; yield from x.m()   started as self.m()
        for ci in ctx.cg.calls_in(f):
            c = ci.node
            if not (ci.kind == 'call' and isinstance(c, ast.Call) and isinstance(c.func, ast.Attribute) and isinstance(c.func.value, ast.Name)
                    and c.func.value.id == s and not c.args):
                continue
            for g in ci.targets:
                if g is None or g is f or g.kind != 'method' or g.cls != f.cls or not g.self_name or done:
                    continue
                gx = Expander(prog, g, ctx.typer, inline=False)
                gs = g.self_name

                def is_parent(e, gx=gx, gs=gs):
                    x = gx.expand(e)
                    return bool(match(f"{gs}._Task__parent", x) or match(f"{gs}.parent", x))
                ylds = [n for n in walk_no_nested(g.node) if isinstance(n, ast.Yield) and n.value is not None and is_parent(n.value)]
                recs = [n for n in walk_no_nested(g.node) if isinstance(n, ast.YieldFrom) and isinstance(n.value, ast.Call) and
                        isinstance(n.value.func, ast.Attribute) and unmangle(n.value.func.attr) == unmangle(g.name) and
                        not n.value.args and is_parent(n.value.func.value)]
                any_rec = any(isinstance(n, ast.Call) and isinstance(n.func, ast.Attribute) and unmangle(n.func.attr) == unmangle(g.name)
                              for n in ast.walk(g.node))
                if ylds and recs and getattr(ylds[0], 'lineno', 0) <= getattr(recs[0], 'lineno', 0):
                    o.site(g, g.node, "yield self.parent; yield from self.parent.<same>(), started at the task")
                    done = True
                elif ylds and not any_rec and not any(isinstance(n, (ast.While, ast.For)) for n in ast.walk(g.node)):
                    o.refute(g, g.node, f.qual, "all_parents does not walk the whole parent chain starting at the direct parent")
                    done = True
    if not done:
        # self-recursion on lists:  x = self.parent; if x is None: return []; return [x] + x.<same>()
        fx = Expander(prog, f, ctx.typer, inline=False)
        for r_ in [n for n in walk_no_nested(f.node) if isinstance(n, ast.Return) and n.value is not None]:
            m = match("[$x] + $y.$m()", r_.value)
            if m and isinstance(r_.value.right, ast.Call) and isinstance(r_.value.right.func, ast.Attribute) and \
                    unmangle(r_.value.right.func.attr) in (unmangle(f.name), 'all_parents') and same(m['x'], m['y']):
                x = fx.expand(m['x'], cfg_of(f).node_of(r_))
                if match(f"{s}.parent", x) or match(f"{s}._Task__parent", x):
                    o.site(f, r_, "[self.parent] + self.parent.<same>() (empty when there is no parent)")
                    done = True
    if not done:
        # iterative form:  cur = self.parent; while cur is not None [..]: acc.append(cur); cur = cur.parent
        fl = flow_of(f)
        for w in [n for n in walk_no_nested(f.node) if isinstance(n, ast.While)]:
            for st in w.body:
                m = match("$acc.append($x)", st.value) if isinstance(st, ast.Expr) else None
                if not (m and isinstance(m['x'], ast.Name)):
                    continue
                x = m['x'].id
                step = [a for a in w.body if isinstance(a, ast.Assign) and len(a.targets) == 1 and match(x, a.targets[0]) and
                        (match(f"{x}.parent", a.value) or match(f"{x}._Task__parent", a.value))]
                init = [d for d in fl.defs_of(x) if d.kind == 'assign' and d.value is not None and
                        (match(f"{s}.parent", d.value) or match(f"{s}._Task__parent", d.value))]
                tests_x = any(isinstance(n, ast.Name) and n.id == x for n in ast.walk(w.test))
                if step and init and tests_x and w.body.index(st) < w.body.index(step[0]):
                    o.site(f, w, "cur = self.parent; while cur: collect cur; cur = cur.parent")
                    done = True
        if not done:
            loops = [n for n in ast.walk(f.node) if isinstance(n, (ast.While, ast.For, ast.FunctionDef, ast.ListComp, ast.GeneratorExp))
                     and n is not f.node]
            calls_self = any(isinstance(n, ast.Attribute) and unmangle(n.attr) in ('__get_all_parents', 'all_parents') for n in ast.walk(f.node)) \
                or any(t is not None and t is not f and t.module is f.module and t.name.startswith('_') and t.name != '__init__'
                       for ci in ctx.cg.calls_in(f) if ci.kind == 'call' for t in ci.targets)
            if not loops and not calls_self:
                o.refute(f, f.node, f.qual, "all_parents does not walk the whole parent chain starting at the direct parent (no loop, no recursion)")
            else:
                o.undecided(f, f.node, f.qual, "all_parents helper not recognised")
    # the closures are recomputed from the links on every call: a result kept on the task goes stale as soon as the links of ANOTHER
    # task change (the per-task invalidation cannot see that), and the guards then test a stale closure
    for q in ('task.Task.__get_all_children', 'task.Task.__get_all_predecessors', 'task.Task.__get_all_successors',
              'task.Task.__get_all_parents', 'task.Task.all_children', 'task.Task.all_predecessors', 'task.Task.all_successors',
              'task.Task.all_parents'):
        h = prog.funcs.get(q)
        if h is None or not h.self_name:
            continue
        for n in walk_no_nested(h.node):
            tg = n.targets if isinstance(n, ast.Assign) else ([n.target] if isinstance(n, (ast.AugAssign, ast.AnnAssign)) else [])
            for t in tg:
                if isinstance(t, ast.Attribute) and isinstance(t.value, ast.Name) and t.value.id == h.self_name:
                    o.refute(h, n, n, f"{unmangle(h.name)} keeps its result on the task (`{src(t)}`): the memoised closure is not invalidated when "
                                      f"the links of another task of the chain change, so the cycle / ancestor guards can work on a stale closure")
    u = prog.func('task._unique_tasks')
    ux = Expander(prog, u, ctx.typer, inline=False)

    def keyed(pred0):
        def pred(e):
            if pred0(e):
                return True
            try:
                return isinstance(e, ast.Name) and cfg_of(u).node_containing(e) is not None and pred0(ux.expand(e))
            except Exception:
                return False
        for n in ast.walk(u.node):
            if isinstance(n, ast.Compare) and len(n.ops) == 1 and isinstance(n.ops[0], (ast.In, ast.NotIn)) and pred(n.left):
                return True
            if isinstance(n, ast.Call) and isinstance(n.func, ast.Attribute) and n.func.attr in ('add', 'setdefault') and n.args and pred(n.args[0]):
                return True
            if isinstance(n, ast.Subscript) and isinstance(n.ctx, ast.Store) and pred(n.slice):
                return True
            if isinstance(n, ast.DictComp) and pred(n.key):
                return True
            if isinstance(n, ast.SetComp) and pred(n.elt):
                return True
        return False
    keyed_by_id = keyed(lambda e: isinstance(e, ast.Attribute) and e.attr == 'id' and isinstance(e.value, ast.Name))
    keyed_by_obj = keyed(lambda e: match("id($t)", e) is not None)
    if keyed_by_id:
        o.refute(u, u.node, '_unique_tasks', "transitive dependencies are de-duplicated by task id: a task that shares its id with another "
                                            "task of the chain disappears from all_predecessors/all_successors and the cycle guard misses it")
    elif keyed_by_obj:
        o.site(u, u.node, "de-duplication by object identity")
    else:
        o.undecided(u, u.node, '_unique_tasks', "de-duplication idiom not recognised")


def mirror_dep(ctx, o, name, mine, other):
    prog = ctx.prog
    f = prog.func(SETTERS[name])
    cfg = cfg_of(f)
    roles = Roles(prog, f, ctx.typer)
    ex = Expander(prog, f, ctx.typer, inline=False)
    # (b) the store of the own list
    stores = [(st, tgt, val) for st, tgt, val in facts.attr_stores(f, mine) if isinstance(tgt.value, ast.Name) and tgt.value.id == f.self_name]
    if len(stores) != 1:
        o.refute(f, f.node, f"self.{unmangle(mine)}", f"the own {name} list is stored {len(stores)} times (expected once)")
        return
    st, tgt, val = stores[0]
    stn = cfg.node_of(st)
    vx = ex.expand(val, stn)
    m = match("[$x for $x in $s]", vx) or match("list($s)", vx) or match("$s[:]", vx) or match("$s.copy()", vx)
    if m and roles.is_arg_list(m['s']):
        o.site(f, st, f"self.{unmangle(mine)} = copy of the argument")
    elif roles.is_arg_list(vx):
        o.refute(f, st, st, "the argument list object itself is stored (aliasing the caller's list)")
    else:
        parts = facts.comp_parts(vx)
        other_field = any(isinstance(n, ast.Attribute) and n.attr in (other, mine) for n in ast.walk(vx))
        if (parts and roles.is_arg_list(parts[2]) and (parts[3] or not (isinstance(parts[0], ast.Name) and isinstance(parts[1], ast.Name)
                                                                         and parts[0].id == parts[1].id))) or other_field or \
                (isinstance(vx, ast.BinOp) and any(roles.is_arg_list(x) for x in (vx.left, vx.right))):
            o.refute(f, st, st, f"the own {name} list becomes `{src(vx)[:60]}`, not exactly the given tasks")
        else:
            o.undecided(f, st, st, f"the own {name} list becomes `{src(vx)[:60]}`: not recognised as a copy of the given tasks")
    s_ = f.self_name

    def xcalls(meth):
        """[(call, loop variable ast)] of `v.<other>.meth(self)` after expanding alias locals"""
        out = []
        for c in facts.calls_named(f, meth):
            m = match(f"$v.{other}.{meth}({s_})", ex.expand(c, cfg.node_containing(c)))
            if m:
                out.append((c, m['v']))
        return out

    def loop_conds(fo, c):
        out = []
        for t, p in cfg.conditions(cfg.node_containing(c)):
            tn = cfg.node_containing(t)
            if tn is not None and cfg.dominates(cfg.node_of(fo), tn):
                out += facts.split_conj(ex.expand(t, tn), p)
        return out

    def absent(meth, what, key):
        """nothing matched: a violation only when the setter visibly does no such thing at all (closed world)"""
        pub_other = unmangle(other).lstrip('_')
        if meth == 'remove':
            for c in facts.calls_named(f, 'remove'):
                m_ = match(f"$v.{pub_other}.remove({s_})", c)
                fo_ = _for_of(f, c)
                if m_ and fo_ is not None and isinstance(m_['v'], ast.Name) and isinstance(fo_.target, ast.Name) and fo_.target.id == m_['v'].id:
                    it_ = ex.expand(fo_.iter, cfg.node_of(fo_))
                    if match(f"{s_}.{mine}", it_) or match(f"{s_}.{unmangle(mine).lstrip('_')}", it_):
                        o.refute(f, c, c, f"the mirror entry is removed through the public list of the other side (`{src(c)[:50]}`): that runs "
                                          f"the {pub_other} setter of v, which takes v out of self.{unmangle(mine)} - the very list being iterated "
                                          f"- so every second old element is skipped and keeps its link to self")
                        return
        wrong = [c for c in facts.calls_named(f, meth) if match(f"$v.{mine}.{meth}({s_})", ex.expand(c, cfg.node_containing(c)))]
        if wrong:
            o.refute(f, wrong[0], wrong[0], f"self is {what} the {unmangle(mine)} list of the elements instead of their {unmangle(other)} list: "
                                            f"the mirror side of the link is not maintained")
            return
        helpers = [t.qual for ci in ctx.cg.calls_in(f) for t in ci.targets
                   if t is not None and ci.kind == 'call' and t.name.startswith('_') and t.name not in ('_to_list', '_check_no_nones_in_list')
                   and t.kind not in ('getter', 'setter')]
        if facts.calls_named(f, meth) or helpers:
            o.undecided(f, f.node, key, f"no `v.{unmangle(other)}.{meth}(self)` recognised (other {meth}() calls / helpers present: "
                                        f"{', '.join(sorted(set(helpers))[:3])})")
        else:
            o.refute(f, f.node, key, f"self is never {what} the {unmangle(other)} list of the {'old' if meth == 'remove' else 'new'} {name}")

    # (a) removal from the mirror list of old elements, before the store
    done_a = False
    for c, v in xcalls('remove'):
        fo = _for_of(f, c)
        if fo is None or not (isinstance(fo.target, ast.Name) and isinstance(v, ast.Name) and fo.target.id == v.id):
            o.undecided(f, c, c, "mirror removal outside a loop over the old list")
            continue
        it = ex.expand(fo.iter, cfg.node_of(fo))
        mm = match("list($x)", it) or match("[$y for $y in $x]", it) or match("$x.copy()", it) or match("$x[:]", it) or match("tuple($x)", it)
        if mm:
            it = mm['x']
        if not match(f"{s_}.{mine}", it):
            o.refute(f, fo, fo.iter, f"self is removed from the mirror lists of `{src(it)[:50]}`, not of every old element of self.{unmangle(mine)}")
            continue
        if not cfg.dominates(cfg.node_of(fo), stn):
            o.refute(f, fo, fo, "the old list is replaced before self was removed from the mirror lists of its elements")
            continue
        conds = loop_conds(fo, c)
        bad = [(t, p) for t, p in conds if not (facts.cond_is(t, p, f"{s_} in {v.id}.{other}", True) is not None or
                                                (facts.cond_is(t, p, f"{v.id} in $new", False) is not None and
                                                 roles.is_arg_list(facts.cond_is(t, p, f"{v.id} in $new", False)['new'])))]
        if bad:
            o.refute(f, c, c, "the mirror link of an old element is only removed when " + ', '.join(facts.cond_texts(bad)) +
                     ": decided on something else than the task objects, a stale mirror link can survive")
            continue
        done_a = True
        o.site(f, c, f"for v in self.{unmangle(mine)}: v.{unmangle(other)}.remove(self)")
    if not done_a and not o.refuted and not o.unknown:
        absent('remove', 'removed from', 'mirror removal')
    # (c) insertion into the mirror list of new elements, after the store
    done_c = False
    for c, v in xcalls('append'):
        fo = _for_of(f, c)
        if fo is None or not (isinstance(fo.target, ast.Name) and isinstance(v, ast.Name) and fo.target.id == v.id):
            o.undecided(f, c, c, "mirror insertion outside a loop over the new list")
            continue
        it = ex.expand(fo.iter, cfg.node_of(fo))
        if not (roles.is_arg_list(it) or match(f"{s_}.{mine}", it)):
            parts = facts.comp_parts(it)
            if (parts and (roles.is_arg_list(parts[2]) or match(f"{s_}.{mine}", parts[2])) and parts[3]) or match(f"{s_}.{other}", it) or \
                    isinstance(it, (ast.Subscript, ast.List)):
                o.refute(f, fo, fo.iter, f"self is added to the mirror lists of `{src(it)[:50]}`, not of every element of the argument")
            else:
                o.undecided(f, fo, fo.iter, f"self is added to the mirror lists of `{src(it)[:50]}`: not recognised as the argument")
            continue
        conds = loop_conds(fo, c)
        bad = [(t, p) for t, p in conds if facts.cond_is(t, p, f"{s_} in {v.id}.{other}", False) is None]
        if bad:
            o.refute(f, c, c, "the mirror link of a new element is only added when " + ', '.join(facts.cond_texts(bad)))
            continue
        if not conds:
            o.refute(f, c, c, "self is appended to the mirror list without `not in` test: repeated elements are listed twice")
            continue
        done_c = True
        o.site(f, c, f"for v in value: v.{unmangle(other)}.append(self) if absent")
    if not done_c and not o.refuted and not o.unknown:
        absent('append', 'added to', 'mirror insertion')


def _dedup_chain(roles, e, depth=0):
    """e denotes the argument list, possibly copied/normalised: -> None (not the argument), False (the argument as given, repeated
    elements included), True (the argument with every object once)"""
    if depth > 8:
        return None
    if isinstance(e, ast.Name) and e.id == roles.arg:
        return False
    m = match("_unique_tasks($x)", e)
    if m:
        return True if _dedup_chain(roles, m['x'], depth + 1) is not None else None
    m = match("list(dict.fromkeys($x))", e) or match("list(dict.fromkeys($x).keys())", e)
    if m:        # Task defines no __eq__/__hash__ (C01.own): dict keys are distinct objects
        return True if _dedup_chain(roles, m['x'], depth + 1) is not None else None
    m = match("list({id($t): $t for $t in $x}.values())", e)
    if m:
        return True if _dedup_chain(roles, m['x'], depth + 1) is not None else None
    m = match("_to_list($x)", e) or match("list($x)", e) or match("[$y for $y in $x]", e) or match("$x[:]", e) or match("$x.copy()", e) or \
        match("tuple($x)", e)
    if m:
        return _dedup_chain(roles, m['x'], depth + 1)
    return None


def listed_once(ctx, o):
    prog = ctx.prog
    for name, mine, other in (('predecessors', '_Task__predecessors', '_Task__successors'),
                              ('successors', '_Task__successors', '_Task__predecessors')):
        f = prog.func(SETTERS[name])
        cfg = cfg_of(f)
        roles = Roles(prog, f, ctx.typer)
        ex = Expander(prog, f, ctx.typer, inline=False)
        s_ = f.self_name
        stores = [(st, tgt, val) for st, tgt, val in facts.attr_stores(f, mine) if isinstance(tgt.value, ast.Name) and tgt.value.id == s_]
        if len(stores) != 1:
            o.undecided(f, f.node, f"self.{unmangle(mine)}", f"the own {name} list is stored {len(stores)} times")
            continue
        st, tgt, val = stores[0]
        stn = cfg.node_of(st)
        chain = _dedup_chain(roles, ex.expand(val, stn))
        if chain is None:
            o.undecided(f, st, st, f"the stored {name} list `{src(ex.expand(val, stn))[:60]}` is not recognised as (a copy of) the argument")
            continue
        if chain is True:
            o.site(f, st, f"self.{unmangle(mine)} = the argument with every task once (de-duplicated by object identity)")
            continue
        # repeated elements rejected before the store?
        rejected = None
        for g in facts.guards_of(prog, f, ctx.typer, inline=False):
            if g.exc != 'RuntimeError' or not cfg.dominates(g.cfg_node, stn) and cfg.can_reach(stn, g.cfg_node):
                continue
            for t, p in g.conds:
                for a, q in facts.split_conj(t, p):
                    a2, q2 = facts.norm_cond(a, q)
                    if isinstance(a2, ast.Compare) and len(a2.ops) == 1 and all(match("len($x)", z) for z in [a2.left, a2.comparators[0]]):
                        xs = [match("len($x)", z)['x'] for z in [a2.left, a2.comparators[0]]]
                        for ids, lst in ((xs[0], xs[1]), (xs[1], xs[0])):
                            inner = match("set($a)", ids)
                            setish = inner['a'] if inner else (ids if isinstance(ids, ast.SetComp) else None)
                            if setish is not None and _dedup_chain(roles, lst) is not None and \
                                    ((isinstance(a2.ops[0], ast.Eq) and not q2) or isinstance(a2.ops[0], (ast.Lt, ast.Gt))):
                                rejected = g
        if rejected is not None:
            o.site(f, rejected.node, f"a repeated element of the argument is rejected before self.{unmangle(mine)} is stored")
            continue
        # the mirror side: one entry per linked task?
        guarded_append = False
        for c in facts.calls_named(f, 'append'):
            m = match(f"$v.{other}.append({s_})", ex.expand(c, cfg.node_containing(c)))
            if m and isinstance(m['v'], ast.Name):
                for t, p in cfg.conditions(cfg.node_containing(c)):
                    tn = cfg.node_containing(t)
                    for a, q in facts.split_conj(ex.expand(t, tn) if tn is not None else t, p):
                        if facts.cond_is(a, q, f"{s_} in {m['v'].id}.{other}", False) is not None:
                            guarded_append = True
        if not guarded_append:
            o.undecided(f, st, st, f"the argument is stored as given, and the rule does not recognise how the {unmangle(other)} side is maintained")
            continue
        o.refute(f, st, 'repeated element of the argument',
                 f"the {name} setter stores the argument as given (`{src(val)[:50]}`): a task listed twice (t.{name} = [d, d], or "
                 f"{name}.append(d) for a d that is already linked) is stored twice in self.{unmangle(mine)} while d.{unmangle(other)} gets self "
                 f"once (`if self not in ..: append`); `d.{unmangle(other)} = []` then removes one of the two entries and the link is "
                 f"one-sided. Expected: the argument de-duplicated by object identity (_unique_tasks) or repeated elements rejected")


def _for_of(f, node):
    best = None
    for n in walk_no_nested(f.node):
        if isinstance(n, ast.For) and any(x is node for s in n.body for x in ast.walk(s)):
            best = n
    return best


def mirror_parent(ctx, o):
    prog = ctx.prog
    f = prog.func(SETTERS['parent'])
    cfg = cfg_of(f)
    ex = Expander(prog, f, ctx.typer, inline=False)
    s, p = f.self_name, [x for x in f.params if x != f.self_name][0]

    def xcalls(name):
        """[(original call, expanded call)]"""
        return [(c, T.expand_call(prog, f, ctx.typer, c)) for c in facts.calls_named(f, name)]

    def xconds(node):
        out = []
        for t, q in facts.node_conditions(prog, f, node, ctx.typer, expand=True):
            out.append(facts.norm_cond(t, q))
        return out

    # removal from the old parent through the RAW field
    rem = xcalls('remove')
    raw = [c for c, x in rem if match(f"{s}._Task__parent._Task__children.remove({s})", x)]
    pub = [c for c, x in rem if match(f"{s}.parent._Task__children.remove({s})", x) or match(f"{s}.parent.children.remove({s})", x)]
    if pub:
        o.refute(f, pub[0], 'unlink through the public parent', "the task is unlinked from `self.parent` (which hides the WBS root task) instead of the "
                 "raw parent field: a root task moved under another task stays in the root list")
    elif raw and not any(a is not b and cfg.can_reach(cfg.node_containing(a), cfg.node_containing(b)) for a in raw for b in raw):
      # one removal, or several on mutually exclusive paths
      for r0 in raw:
        ok_conds = (f"{s}._Task__parent is None", f"{s} in {s}._Task__parent._Task__children", f"{p} is None", f"{s}._Task__wbs is None")
        extra = []
        rn0 = cfg.node_containing(r0)
        xc = []
        for t0, q0 in cfg.conditions(rn0):
            # residues of guards (an `if ..: raise/return` that did not fire) are not conditions of the removal; decided on the
            # statement the RAW test belongs to (the expanded test no longer looks like it when locals were hoisted)
            holder = next((n for n in walk_no_nested(f.node) if isinstance(n, (ast.If, ast.While)) and n.test is t0), None)
            if holder is not None and not any(x is r0 for x in ast.walk(holder)):
                branch = holder.body if not q0 else holder.orelse
                if branch and isinstance(branch[-1], (ast.Raise, ast.Return)):
                    continue
            tn0 = cfg.node_containing(t0)
            for a, qa in facts.split_conj(ex.expand(t0, tn0) if tn0 is not None else t0, q0):
                xc.append(facts.norm_cond(a, qa))
        for t, q in xc:
            if any(match(pat, t) for pat in ok_conds):
                continue
            iff = _if_of(f, t) or _if_of_src(f, t)
            if iff is not None and any(isinstance(x, ast.Raise) for x in ast.walk(iff)) and not any(x is r0 for x in ast.walk(iff)):
                continue
            extra.append((t, q))
        if extra and len(raw) == 1:
            o.refute(f, r0, 'conditional unlink', "removal from the old parent is conditional on " + ', '.join(facts.cond_texts(extra)))
        elif not extra:
            o.site(f, r0, "self.__parent.__children.remove(self) when linked")
        # with several exclusive removal sites the conditions of each site are path conditions; that every write of the
        # relation is preceded by one of them is decided below
    else:
        o.refute(f, f.node, 'unlink from old parent', "the task is not removed from its old parent's child list exactly once")
    # new parent: store, then append once
    stores = [(st, tgt, val) for st, tgt, val in facts.attr_stores(f, '_Task__parent') if isinstance(tgt.value, ast.Name) and tgt.value.id == s]
    nn = [x for x in stores if isinstance(x[2], ast.Name) and x[2].id == p]
    if len(nn) != 1:
        o.refute(f, f.node, 'store of the new parent', f"self.__parent = {p} is stored {len(nn)} times")
        return
    stn = cfg.node_of(nn[0][0])
    if raw:
        if not _unlinked_before(cfg, f, raw, stn, ex):
            o.refute(f, nn[0][0], nn[0][0], "the parent field is overwritten before the task was unlinked from the old parent")
    app = [c for c, x in xcalls('append') if match(f"{p}._Task__children.append({s})", x)]
    ins = [c for c, x in xcalls('insert') if match(f"{p}._Task__children.insert($i, {s})", x)]
    if ins:
        o.refute(f, ins[0], ins[0], "a re-parented task is inserted instead of appended last")
    elif len(app) == 1:
        guarded = any(match(f"{s} in {p}._Task__children", t) and not q for t, q in xconds(app[0]))
        if guarded:
            o.site(f, app[0], "new parent's child list receives the task once")
        else:
            o.refute(f, app[0], 'unguarded append', "the task is appended to the new parent's child list without `not in` test: it can be listed twice")
        if not cfg.can_reach(stn, cfg.node_containing(app[0])) and not cfg.can_reach(cfg.node_containing(app[0]), stn):
            o.refute(f, app[0], 'store and append on different paths', "the parent field and the child list are written on different paths")
    else:
        o.refute(f, f.node, 'append to new parent', f"the new parent's child list is appended {len(app)} times")
    # re-rooting
    none_stores = [x for x in stores if isinstance(x[2], ast.Constant) and x[2].value is None]
    reroot = [c for c, x in xcalls('append') if match(f"{s}._Task__wbs._root().children.append({s})", x)]
    if not reroot:
        # the assignment that this append performs, written out: `self.parent = self.__wbs._root()` (the setter calls itself with the
        # hidden root task as the new parent)
        reroot = [tgt for st, tgt, val in facts.attr_stores(f, 'parent') if isinstance(tgt.value, ast.Name) and tgt.value.id == s and
                  match(f"{s}._Task__wbs._root()", ex.expand(val, cfg.node_of(st)))]
    if reroot and none_stores:
        if raw:
            for what, nd in (('re-rooting', cfg.node_containing(reroot[0])), ('parent = None', cfg.node_of(none_stores[0][0]))):
                if not _unlinked_before(cfg, f, raw, nd, ex):
                    o.refute(f, nd.node if getattr(nd, 'node', None) is not None else f.node, what,
                             f"{what} happens on a path on which the task was not unlinked from the old parent")
        c1 = xconds(reroot[0])
        if any(match(f"{p} is None", t) and q for t, q in c1) and any(match(f"{s}._Task__wbs is None", t) and not q for t, q in c1):
            o.site(f, reroot[0], "parent = None on a member re-roots it under the WBS root task")
        else:
            o.refute(f, reroot[0], 're-rooting condition', "re-rooting is not limited to `parent is None` on a member task")
        o.site(f, none_stores[0][0], "detached task: parent = None")
    elif any(isinstance(n, ast.Attribute) and n.attr in ('_root', 'roots', '_WBS__root') for n in ast.walk(f.node)) and none_stores:
        o.undecided(f, f.node, 're-rooting', "the WBS root task is used in a form the rule does not recognise")
    else:
        o.refute(f, f.node, 're-rooting', "parent = None does not re-root a member task under the WBS root task / reset a detached task")


def _if_of_src(f, test):
    """the `if` statement whose (unexpanded) test has the same source as the given expanded test"""
    for n in walk_no_nested(f.node):
        if isinstance(n, ast.If) and src(n.test) == src(test):
            return n
    return None


def _unlinked_before(cfg, f, removals, stn, ex=None) -> bool:
    """every path to stn either executes one of the removals or takes a branch on which the task is known not to be linked
    (`self.__parent is None` / `self not in self.__parent.__children`); no removal follows stn"""
    from .taskrules import reaches_avoiding
    s = f.self_name
    linked = (f"{s}._Task__parent is None", f"{s} in {s}._Task__parent._Task__children")   # positive cores; wanted polarity below
    want = (False, True)

    def says_linked(t, q=True):      # the conjunct is implied by "linked"
        core, pol = facts.norm_cond(t, q)
        return any(match(pat, core) and pol == w for pat, w in zip(linked, want))

    def says_unlinked(t):
        core, pol = facts.norm_cond(t, True)
        return any(match(pat, core) and pol != w for pat, w in zip(linked, want))

    avoid = set()
    for call in removals:
        rn = cfg.node_containing(call)
        if rn is None or cfg.can_reach(stn, rn):
            return False
        avoid.add(rn.id)
    for b in cfg.nodes:
        if b.kind != 'branch' or isinstance(b.test, (ast.For, ast.AsyncFor)):
            continue
        tn = cfg.node_containing(b.test)
        t = ex.expand(b.test, tn) if ex is not None and tn is not None else b.test
        if b.polarity is False:
            conj = facts.split_conj(t, True)
            if conj and all(says_linked(c, q) for c, q in conj):
                avoid.add(b.id)
        else:
            disj = t.values if isinstance(t, ast.BoolOp) and isinstance(t.op, ast.Or) else [t]
            if all(says_unlinked(c) for c in disj):
                avoid.add(b.id)
    return not reaches_avoiding(cfg, stn, avoid)


def _decided_before(cfg, f, call, stn) -> bool:
    """the innermost `if` around `call` (or the call itself) is decided on every path that reaches stn"""
    rif = None
    for n in walk_no_nested(f.node):
        if isinstance(n, ast.If) and any(x is call for st_ in n.body for x in ast.walk(st_)):
            rif = n
    # outermost if whose body contains the call and which is not also around stn
    cands = [n for n in walk_no_nested(f.node) if isinstance(n, ast.If) and any(x is call for st_ in n.body + n.orelse for x in ast.walk(st_))
             and not any(cfg.node_of(x) is stn for st_ in n.body + n.orelse for x in ast.walk(st_) if isinstance(x, ast.stmt))]
    node = cfg.node_of(cands[0]) if cands else cfg.node_containing(call)
    return node is not None and (cfg.dominates(node, stn) or not cfg.can_reach(stn, node))


def _if_of(f, test):
    for n in walk_no_nested(f.node):
        if isinstance(n, ast.If) and n.test is test:
            return n
    return None


def _test_node_of(cfg, f, call):
    """cfg node from which the removal statement is decided (its innermost enclosing if test), for ordering purposes"""
    cn = cfg.node_containing(call)
    return cn


def mirror_children(ctx, o):
    prog = ctx.prog
    f = prog.func(SETTERS['children'])
    cfg = cfg_of(f)
    s = f.self_name
    roles = Roles(prog, f, ctx.typer)
    ex = Expander(prog, f, ctx.typer, inline=False)
    # old children lose their parent
    ok = False
    unparent = []
    for st, tgt, val in facts.attr_stores(f, '_Task__parent'):
        if isinstance(val, ast.Constant) and val.value is None:
            fo = _for_of(f, st)
            itx = ex.expand(fo.iter, cfg.node_of(fo)) if fo is not None else None
            mm = (match("list($x)", itx) or match("[$y for $y in $x]", itx) or match("$x.copy()", itx) or match("$x[:]", itx) or
                  match("tuple($x)", itx)) if itx is not None else None
            if mm:
                itx = mm['x']
            if fo is not None and match(f"{s}._Task__children", itx) and \
                    isinstance(tgt.value, ast.Name) and isinstance(fo.target, ast.Name) and tgt.value.id == fo.target.id:
                ok = True
                # (a round that also takes v out of the list - `self.__children.remove(v); v.__parent = None` - releases v completely:
                # both ends agree at once, whatever happens later)
                if not any(isinstance(n, ast.Call) and match(f"{s}._Task__children.remove({fo.target.id})", n) for b in fo.body for n in ast.walk(b)):
                    unparent.append(st)
                o.site(f, st, "for v in self.__children: v.__parent = None")
    if not ok:
        o.refute(f, f.node, 'old children unparented', "old children keep pointing to the task as parent")
    clears = [c for c in facts.calls_named(f, 'clear') if match(f"{s}._Task__children.clear()", c)]
    rebinds = [x for x in facts.attr_stores(f, '_Task__children') if isinstance(x[1].value, ast.Name) and x[1].value.id == s]
    if rebinds:
        o.refute(f, rebinds[0][0], rebinds[0][0], "the child list is rebound to a new list object: list facades handed out earlier keep the old "
                                                  "list and a later operation through them re-attaches removed tasks")
    elif len(clears) == 1:
        o.site(f, clears[0], "shared list cleared in place")
        # the two halves of the release (parent pointers reset, list emptied) are one step: a rejection in between leaves the old
        # children listed under the task while they report no parent
        cln = cfg.node_containing(clears[0])
        eff = Effects(prog, ctx.typer, ctx.cg)
        events = [(cfg.node_of(n), n, 'raise') for n in walk_no_nested(f.node) if isinstance(n, ast.Raise)]
        for ci in ctx.cg.calls_in(f):
            if ci.kind == 'call' and any(t is not None and eff.raises_star(t) for t in ci.targets):
                events.append((cfg.node_containing(ci.node), ci.node, f"`{src(ci.node)[:40]}` (may raise)"))
        for st in unparent:
            sn = cfg.node_of(st)
            if sn is None or cln is None:
                continue
            first, second = (sn, cln) if cfg.can_reach(sn, cln) else (cln, sn)
            if not cfg.can_reach(first, second):
                continue
            hit = [(en, n, txt) for en, n, txt in events if en is not None and en is not first and en is not second and
                   cfg.is_reachable(en) and cfg.can_reach(first, en) and not cfg.can_reach(second, en)]
            if hit:
                en, n, txt = hit[0]
                how = "after the old children lost their parent (`" + src(st)[:40] + "`) and before the child list is cleared" if first is sn else \
                    "after the child list was cleared and before the old children lose their parent (`" + src(st)[:40] + "`)"
                o.refute(f, n, 'rejection between unparenting and clearing', f"{txt} can happen {how}: a rejected assignment leaves the two "
                         f"ends of the old parent/child edges in disagreement (listed under the task but reporting no parent, or the reverse)")
    else:
        o.refute(f, f.node, 'clear', "the child list is not cleared in place exactly once")
    # re-parent every element of value through the setter, in order
    rp = []
    for st, tgt, val in facts.attr_stores(f, 'parent'):
        fo = _for_of(f, st)
        if fo is not None and isinstance(val, ast.Name) and val.id == s and isinstance(tgt.value, ast.Name) and \
                isinstance(fo.target, ast.Name) and tgt.value.id == fo.target.id:
            it = ex.expand(fo.iter, cfg.node_of(fo))
            if roles.is_arg_list(it):
                rp.append(st)
                if clears and not cfg.dominates(cfg.node_containing(clears[0]), cfg.node_of(fo)):
                    o.refute(f, fo, fo, "new children are attached before the old list was cleared")
                conds = [t for t in cfg.conditions(cfg.node_of(st)) if cfg.dominates(cfg.node_of(fo), cfg.node_containing(t[0]) or cfg.entry)]
                if conds:
                    o.refute(f, st, st, "an element of the argument is only attached conditionally")
            else:
                o.refute(f, fo, fo.iter, f"the loop that attaches children ranges over `{src(it)[:50]}`, not over the argument in its order")
    if len(rp) == 1:
        o.site(f, rp[0], "for v in value: v.parent = self")
    elif not rp:
        o.refute(f, f.node, 're-parent', "the elements of the argument are not attached through the parent setter")


def facades(ctx, o):
    prog = ctx.prog
    # move
    f = prog.func('task._ChildrenList.move')
    cfg = cfg_of(f)
    xc = {id(c): T.expand_call(prog, f, ctx.typer, c) for c in facts.calls_named(f, 'remove') + facts.calls_named(f, 'insert')}
    base = "self._list"
    rem = [c for c in facts.calls_named(f, 'remove') if match("self._list.remove($t)", xc[id(c)])]
    ins = [c for c in facts.calls_named(f, 'insert') if match("self._list.insert($i, $t)", xc[id(c)])]
    if not rem:
        # the relocation done in a working copy that is written back afterwards: W = self._list.copy(); W.remove(x); W.insert(_, x) ..;
        # self._list[:] = W - the same pairing rule, on W
        wc = _working_copy(f)
        if wc is not None:
            base = wc
            xc = {id(c): c for c in facts.calls_named(f, 'remove') + facts.calls_named(f, 'insert')}
            rem = [c for c in facts.calls_named(f, 'remove') if match(f"{base}.remove($t)", c)]
            ins = [c for c in facts.calls_named(f, 'insert') if match(f"{base}.insert($i, $t)", c)]
            other = [n for n in walk_no_nested(f.node) if isinstance(n, ast.Call) and isinstance(n.func, ast.Attribute) and
                     isinstance(n.func.value, ast.Name) and n.func.value.id == base and n.func.attr in _LIST_MUT and
                     n.func.attr not in ('remove', 'insert')] + \
                    [n for n in walk_no_nested(f.node) if isinstance(n, (ast.AugAssign, ast.Delete)) and
                     any(isinstance(x, ast.Name) and x.id == base for x in ast.walk(n))] + \
                    [n for n in walk_no_nested(f.node) if isinstance(n, ast.Subscript) and isinstance(n.ctx, ast.Store) and
                     isinstance(n.value, ast.Name) and n.value.id == base]
            if other:
                o.undecided(f, other[0], 'move', f"the working copy `{base}` of the child list is also changed by `{src(other[0])[:50]}`")
                rem = []
    if not rem and not o.unknown:
        o.undecided(f, f.node, 'move', "move does not remove/insert on the shared list")
    for c in rem:
        t = match(f"{base}.remove($t)", xc[id(c)])['t']
        rn = cfg.node_containing(c)
        # every path from the removal to the loop header / exit passes an insert of the same element; no raise in between
        ins_ids = {cfg.node_containing(i).id for i in ins if same(match(f"{base}.insert($i, $t)", xc[id(i)])['t'], t)}
        seen, todo, leak, raised = set(), list(rn.succ), False, False
        fo = _for_of(f, c)
        stop = {cfg.node_of(fo).id} if fo is not None else set()
        while todo:
            n = todo.pop()
            if n.id in seen or n.id in ins_ids:
                continue
            seen.add(n.id)
            if n is cfg.raise_exit:
                raised = True
                continue
            if n is cfg.exit or n.id in stop:
                leak = True
                continue
            todo.extend(n.succ)
        if leak:
            o.refute(f, c, c, "an element removed from the child list is not re-inserted on every path")
        elif raised:
            o.refute(f, c, c, "move can raise between removing an element and re-inserting it: the element is lost from the list")
        else:
            o.site(f, c, "remove(x) ... insert(_, x) on every path")
    # sort
    f = prog.func('task._ChildrenList.sort')
    cfg = cfg_of(f)
    ex = Expander(prog, f, ctx.typer, inline=True)
    st = [(a, None, b) for a, b, c in T.list_replacements(f)]
    inplace = [c for c in facts.calls_named(f, 'sort') + facts.calls_named(f, 'reverse')
               if match("self._list", ex.expand(c.func.value, cfg.node_containing(c)))]
    for c in inplace:
        o.site(f, c, f"self._list.{c.func.attr}(..) permutes the shared list in place")
    if not st and not inplace:
        o.undecided(f, f.node, 'sort', "sort neither replaces the contents of the child list nor sorts it in place")
    st2 = []
    for s_, tgt, val in st:
        # a local with one plain definition per branch: every definition is judged
        ds = flow_of(f).reaching(val.id, cfg.node_of(s_)) if isinstance(val, ast.Name) else []
        if len(ds) > 1 and all(d.kind == 'assign' and d.value is not None and d.node is not None for d in ds):
            st2 += [(s_, d.node, d.value, val.id) for d in ds]
        else:
            st2.append((s_, cfg.node_of(s_), val, None))
    for s_, at_, val, var in st2:
        vx = ex.expand(val, at_)
        m = match("list($x)", vx) or match("[$y for $y in $x]", vx) or match("$x.copy()", vx) or match("$x[:]", vx)
        if m:
            vx = m['x']
        if var is not None and (match("self._list", vx) or match("self", vx)):
            o.site(f, s_, f"`{var}` starts as the child list itself")
            continue
        if isinstance(vx, ast.Call) and isinstance(vx.func, ast.Name) and vx.func.id in ('sorted', 'reversed') and vx.args:
            arg = vx.args[0]
            if var is not None and isinstance(arg, ast.Name) and arg.id == var:
                # x = <the list>; (loop) x = sorted(x, ..): every definition of x is a permutation of the previous one
                o.site(f, s_, f"`{var}` = sorted({var}, ..): a permutation of its previous value")
                continue
            m = match("list($x)", arg) or match("$x.copy()", arg) or match("$x[:]", arg) or match("[$y for $y in $x]", arg)
            if m:
                arg = m['x']
            pv = _partition_verdict(arg)
            cp = facts.comp_parts(arg)
            filtered = (cp is not None and cp[3]) or (isinstance(arg, ast.Call) and isinstance(arg.func, ast.Name) and arg.func.id == 'filter')
            if match("self._list", arg) or match("self", arg):
                o.site(f, s_, "self._list = sorted(self._list, ...)")
            elif pv is True:
                o.site(f, s_, "self._list = sorted(<two complementary filters of the list>, ...)")
            elif pv:
                o.refute(f, s_, s_, f"sort rebuilds the child list from two filters of it, `{pv[0]}` and `{pv[1]}`, that are not each other's "
                                    f"complement: {pv[2]}")
            elif not filtered:
                o.undecided(f, s_, s_, f"sort replaces the child list by `{src(vx)[:60]}`: not recognised as a permutation of it")
            else:
                o.refute(f, s_, s_, f"sort replaces the child list by `{src(vx)[:60]}`: sorted() of something else than the whole child list "
                                    f"is not a permutation of it")
        else:
            part = _partition_verdict(vx)
            if part is True:
                o.site(f, s_, "the list is rebuilt from two complementary filters of itself (one of them sorted)")
            elif part:
                o.refute(f, s_, s_, f"sort rebuilds the child list from two filters of it, `{part[0]}` and `{part[1]}`, that are not each other's "
                                    f"complement: {part[2]} - such children are dropped from the list while they still name the parent")
            else:
                o.undecided(f, s_, s_, f"sort replaces the child list by `{src(vx)[:60]}`: not recognised as a permutation of it")
    _published(ctx, o, f)
    # reorder
    f = prog.func('task._ChildrenList.reorder')
    st = [(a, None, b) for a, b, c in T.list_replacements(f)]
    fl = flow_of(f)
    cfg = cfg_of(f)
    if len(st) != 1:
        o.undecided(f, f.node, 'reorder', "reorder does not replace the list exactly once")
    else:
        s_, tgt, val = st[0]
        val = _alias(f, val, cfg.node_of(s_))
        m = match("$a + $b", val)
        ok = False
        if m and isinstance(m['a'], ast.Name):
            a = m['a'].id
            bx = _alias(f, m['b'], cfg.node_of(s_))
            apps = [c for c in facts.calls_named(f, 'append') if match(f"{a}.append($x)", c)]
            if match("self._list", bx):
                o.refute(f, s_, s_, "reorder removes the picked tasks from the LIVE child list: a failure half way leaves them dropped")
            elif isinstance(bx, ast.Name):
                b = bx.id
                bdefs = [d for d in fl.defs_of(b) if d.kind == 'assign']
                copy_ok = len(bdefs) == 1 and (match("self._list.copy()", bdefs[0].value) or match("list(self._list)", bdefs[0].value)
                                               or match("self._list[:]", bdefs[0].value) or match("[$x for $x in self._list]", bdefs[0].value))
                rems = [c for c in facts.calls_named(f, 'remove') if match(f"{b}.remove($x)", c)]
                if len(bdefs) == 1 and match("self._list", bdefs[0].value) and rems:
                    o.refute(f, bdefs[0].stmt, bdefs[0].stmt, "reorder removes the picked tasks from the LIVE child list: a failure half way "
                                                              "leaves them dropped")
                    ok = True
                if copy_ok and len(apps) == 1 and len(rems) == 1 and \
                        same(match(f"{a}.append($x)", apps[0])['x'], match(f"{b}.remove($x)", rems[0])['x']) \
                        and _for_of(f, apps[0]) is _for_of(f, rems[0]) and _for_of(f, apps[0]) is not None:
                    ok = True
                    o.site(f, s_, "picked + remainder: one remove from the copy per picked element")
                elif copy_ok and not rems:
                    o.refute(f, s_, s_, f"reorder rebuilds the list as `{src(val)[:70]}` where `{b}` is a full copy of the child list: the picked "
                                        f"tasks are listed twice")
                    ok = True
            elif facts.comp_parts(bx) and match("self._list", facts.comp_parts(bx)[2]) or facts.comp_parts(bx) and match("self", facts.comp_parts(bx)[2]):
                # remainder = the children that were not picked, decided by a membership test: sound only when no task is picked twice
                dup_guard = any(g for g in facts.guards_of(prog, f, ctx.typer, inline=False)
                                if any('set(' in src(t) and 'len(' in src(t) for t, p in g.conds))
                ok = True
                if dup_guard:
                    o.site(f, s_, "reorder rejects duplicate ids before rebuilding the list")
                else:
                    o.refute(f, s_, s_, f"reorder rebuilds the list as `{src(val)[:70]}` without removing each picked task from the remainder and "
                                        f"without rejecting repeated ids: a child can be listed twice (or dropped)")
        if not ok and not o.refuted:
            dup_guard = any(g for g in facts.guards_of(prog, f, ctx.typer, inline=False)
                            if any('set(' in src(t) and 'len(' in src(t) for t, p in g.conds))
            if dup_guard:
                o.site(f, s_, "reorder rejects duplicate ids before rebuilding the list")
            else:
                o.undecided(f, s_, s_, f"reorder rebuilds the list as `{src(val)[:70]}`: not recognised as picked + (copy minus picked)")
    _published(ctx, o, f)
    _published(ctx, o, prog.func('task._ChildrenList.move'))
    # link facades never mutate _list in place
    eff = Effects(prog, ctx.typer, ctx.cg)
    for cls in ('_ImmutableTaskList', '_TaskList', '_PredecessorsList', '_SuccessorsList'):
        c = prog.cls(cls)
        for m in c.methods.values():
            if m.name == '__init__':
                continue
            for w in eff.direct_writes(m):
                if w.field == '_list':
                    o.refute(m, w.node, w.node, f"{cls}.{m.name} mutates the raw relation list it was handed")


def _working_copy(f):
    """name of a local that is defined exactly once, as a copy of the shared list, and is what the shared list is replaced by
    (`self._list[:] = W`); None when there is no such local"""
    fl = flow_of(f)
    for st, val, inplace in T.list_replacements(f):
        if isinstance(val, ast.Name):
            ds = fl.defs_of(val.id)
            if len(ds) == 1 and ds[0].kind == 'assign' and ds[0].value is not None and any(
                    match(pat, ds[0].value) for pat in ("self._list.copy()", "list(self._list)", "self._list[:]", "[$x for $x in self._list]")):
                return val.id
    return None


def move_anchor(ctx, o, eff):
    from .c15 import move_requirements
    prog = ctx.prog
    f = prog.func('task._ChildrenList.move')
    writes = [w for w in relation_write_nodes(ctx, f, eff) if isinstance(w[1], ast.AST)]
    if not writes:
        o.undecided(f, f.node, 'move', "no list change found")
        return
    from .c15 import move_anchor_rebound
    for st_, nm in move_anchor_rebound(ctx, f):
        o.refute(f, st_, st_, f"the anchor `{nm}` is re-bound inside the relocation loop (`{src(st_)[:50]}`): what was validated before the loop no "
                              f"longer covers it - a task repeated in the selection is removed and then looked up as the anchor, index() fails "
                              f"and the task is lost from the child list")
    for key, label, R, needs_elem in move_requirements(f):
        if key == 'task_in_list':
            continue        # a moved task that is not in the list fails in remove(), before anything of it was changed
        T.require(ctx, o, f, f"move(): {label} (else index(anchor) fails after remove(task) and the task is lost from the child list)",
                  R, writes, eff, needs_elem)


def _partition_verdict(vx):
    """vx = A + B where A, B are (sorted) filters of self._list by conditions c1, c2.  True: c2 is the syntactic complement of c1
    (every element lands in exactly one part); (c1, c2, why): positively not complementary; None: not that shape / cannot tell"""
    if not (isinstance(vx, ast.BinOp) and isinstance(vx.op, ast.Add)):
        return None
    conds = []
    for side in (vx.left, vx.right):
        if isinstance(side, ast.Call) and isinstance(side.func, ast.Name) and side.func.id in ('sorted', 'list') and side.args:
            side = side.args[0]
        parts = facts.comp_parts(side)
        if not (parts and isinstance(parts[0], ast.Name) and isinstance(parts[1], ast.Name) and parts[0].id == parts[1].id and
                (match("self._list", parts[2]) or match("self", parts[2])) and len(parts[3]) == 1):
            return None
        # same element variable name for comparison
        conds.append(_rename(parts[3][0], {parts[1].id: 'ELEM'}))
    (c1, p1), (c2, p2) = facts.norm_cond(conds[0], True), facts.norm_cond(conds[1], True)
    if same(c1, c2) and p1 != p2:
        return True
    # truthiness on one side, None-ness on the other: falsy values that are not None (0, '', False) are in neither / both parts
    for (a, pa), (b, pb) in (((c1, p1), (c2, p2)), ((c2, p2), (c1, p1))):
        m = match("$e is None", b)
        if m and same(m['e'], a):
            if pa and pb:
                return (src(conds[0]), src(conds[1]), "an element whose value is falsy but not None (0, '', False) is in neither part")
            if not pa and not pb:
                return (src(conds[0]), src(conds[1]), "an element whose value is falsy but not None (0, '', False) is in both parts")
    return None


def _alias(f, e, at):
    """follow `x = <expr>` for a local x that has this one plain definition (a hoisted sub-expression); mutated containers are kept"""
    fl = flow_of(f)
    for _ in range(6):
        if not isinstance(e, ast.Name) or at is None:
            return e
        d = fl.unique_def(e.id, at)
        if d is None or d.kind != 'assign' or d.value is None or d.node is None or d.node is at:
            return e
        mutated = any(isinstance(n, ast.Call) and isinstance(n.func, ast.Attribute) and isinstance(n.func.value, ast.Name) and
                      n.func.value.id == e.id and n.func.attr in _LIST_MUT for n in walk_no_nested(f.node))
        if mutated:
            return e
        e, at = d.value, d.node
    return e


def _published(ctx, o, f):
    """after the last change of self._list the setter callback is called with it on every normal path"""
    cfg = cfg_of(f)
    pa = T.publish_attr(ctx.prog)
    calls = [c for c in facts.calls_named(f, unmangle(pa)) if match(f"self.{pa}(self._list)", T.expand_call(ctx.prog, f, ctx.typer, c))]
    if not calls:
        if facts.calls_named(f, unmangle(pa)):
            o.undecided(f, f.node, 'publish', f"{f.name} calls the publish callback with something the rule does not recognise as the shared list")
        else:
            o.refute(f, f.node, 'publish', f"{f.name} never hands the new list to the owner (self.__setter(self._list))")
        return
    pub_ids = {cfg.node_containing(c).id for c in calls}
    eff = Effects(ctx.prog, ctx.typer, ctx.cg)
    for w in eff.direct_writes(f):
        if w.field != '_list':
            continue
        wn = cfg.node_containing(w.node) or cfg.node_of(w.node)
        seen, todo, leak = set(), list(wn.succ), False
        while todo:
            n = todo.pop()
            if n.id in seen or n.id in pub_ids:
                continue
            seen.add(n.id)
            if n is cfg.exit:
                leak = True
                break
            todo.extend(n.succ)
        if leak:
            o.refute(f, w.node, w.node, f"{f.name} changes the list without publishing it to the owner on some path")
            return
    o.site(f, calls[0], f"{f.name}: list published after the change")


def sibling(ctx, o):
    prog = ctx.prog
    fa, fb = prog.func(SETTERS['predecessors']), prog.func(SETTERS['successors'])

    def norm(f, swap):
        t = ast.unparse(ast.Module(body=[s for s in f.body if not (isinstance(s, ast.Expr) and isinstance(s.value, ast.Constant))],
                                   type_ignores=[]))
        if swap:
            t = t.replace('predecessor', '\0').replace('successor', 'predecessor').replace('\0', 'successor')
        # messages do not matter
        import re
        t = re.sub(r"RuntimeError\((?:[^()]|\([^()]*\))*\)", 'RuntimeError()', t)
        return t
    ga = sorted((a, p) for g in guard_facts(ctx, fa) for a, p in g.atoms)
    gb = sorted((a.replace('tpred(elem,self)', 'tpred(self,elem)') if True else a, p) for g in guard_facts(ctx, fb) for a, p in g.atoms)
    if ga != gb:
        o.refute(fb, fb.node, 'guard sets', f"the two dependency setters check different things: predecessors {ga} vs successors {gb}")
    elif norm(fa, False) == norm(fb, True):
        o.site(fa, fa.node, "identical modulo pred<->succ")
    else:
        # same guards, different text: fine as long as the mirror obligations hold for both
        o.site(fa, fa.node, "same guard set (bodies differ textually)")
