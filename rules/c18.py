"""C18 - task queries select exactly the matching tasks; bulk operations touch only those.   (DESIGN.md section 5, C18)

What is decided (all structurally, nothing under /repo is imported or run):

* suffix_table   The nested `search` of `_ImmutableTaskList.__call__` is executed *symbolically*: every path through the body
                 of its `for k, v in kw.items()` loop is enumerated (if/elif chains, early `continue`, nested ifs, locals
                 substituted by their definitions).  For every suffix A of the PROPERTY's table (and for "no suffix") the
                 paths a key `name + A` can take are selected by evaluating each `k.endswith(S)` test as `A.endswith(S)`.
                 On those paths: the name handed to the attribute resolver must be the key with exactly len(A) characters
                 stripped (`k[0:-n]`, `k[:-n]`, `k[:-len('..')]`, `k.removesuffix(A)`), and the accept/reject decision, as
                 a truth table over (value is None, operator atom), must equal the property's table; ordering comparisons and
                 `re.search` must not be evaluated on a None value (None guard `is None` first).  Because dispatch is
                 evaluated per suffix, "longer suffix first" (`_not_in_` before `_in_`, `_not_like_` before `_like_`) is a
                 consequence: a misordered chain sends `x_not_in_` into the `_in_` branch, where strip length and operator
                 disagree with the table.
* resolver       `__get_task_attribute` is executed symbolically for every public attribute of `Task` (names stored on self
                 in `Task.__init__`, property names, a symbolic custom attribute, `parent_id`): the value returned must be a
                 real attribute read (`getattr`, `__getattribute__`, `t.<name>`); a `__dict__` based read or membership test
                 yields None for the property-backed names (estimate, spent, parent, ...) and is refuted (F27).
* all_filters    every `return` of `__call__` applies the callable `key` (unless its path condition says key is None) AND
                 `search(t, **kwargs)` (unless the path says kwargs is empty), conjunctively (F28).
* result         the result is `_ImmutableTaskList(<comprehension over self / self._list in list order, element = the task,
                 no other filter>)`; `__iter__` iterates `_list`; the constructor stores its argument as `_list`.
* readonly       sa.effects: `__call__`, `search`, the resolver, `order_by` (and its lambdas) and every `Task` property
                 getter reachable through `getattr` write nothing (fresh objects excepted).
* bulk_assign    `__setattr__` with a public key applies `t.__setattr__(key, value)` / `setattr(t, key, value)` to every
                 element of `self._list`, unconditionally, no early loop exit; `{K(t): t for t in _list}.values()` reaches
                 every task only when K is `id(t)` (keyed by `t.id` / `t.name` it is refuted: one task per key, C18-r42).
* remove_all     `_TaskList.remove_all` and `WBS.remove_all`: the match list is `self(key, **kwargs)` resp.
                 `self.tasks(key, **kwargs)` (`WBS.tasks` = all tasks below the root); every match is removed (through
                 `self.remove` resp. `self.__remove(t, self.__root)`), unconditionally; every return yields the whole match
                 list (not only the matches the tree walk reported as removed); `WBS.__remove` removes from the current
                 node's children and recurses into every child.  `__remove` may hand the walk to a private helper of the class
                 (`return self.__remove_below(task, current)` behind the None pre-check, parameters in any order, recursion
                 through either function).
                 The walker is found from the call site: any package function / method called with the hidden root and one
                 match (`self.__remove(t, self.__root)`, a static method, a module-level `_remove_from_subtree(root, t)`), or
                 through the public `WBS.remove`.  A walker that receives ALL matches at once (`self.__prune({id(t) for t in
                 matches}, self.__root)`) is read in bulk mode: the argument must hold every match, the walker must rebuild
                 `current.children` without the doomed tasks and must visit EVERY remaining child - `any(<generator>)`,
                 `x or <descent>`, `return`/`break` in the child loop are refuted (C18-r43).  A remove_all whose body is
                 `return helper(<query>, <callback>)` is analysed with the helper's body spliced in (lambda and bound-method
                 callbacks beta-reduced); "no removal call" is refuted only when the function calls nothing the rule did not
                 follow.
                 Round 5: an iterative walker (`pending = [current]; while pending: node = pending.pop(); if
                 node.children.remove(task): return True; pending.extend(node.children)`, also deque / popleft / append in a
                 for loop) is modelled: the work list starts as `[current]`, one node is taken per round, the removal is tried
                 on that node's children and EVERY child is pushed (slice / filter / break in the pushing loop are refuted).
                 Several queries, one per branch of a dispatch on `key`, all assigned to the same local, are judged one by one
                 under their path condition: `self.tasks(**kwargs)` is fine where key is None, a branch that drops `**kwargs`
                 or `key` is refuted (C18-r52); `self.tasks(id=key, **kwargs)` under `not callable(key)` is outside the
                 property (key neither None nor callable) and is skipped.
* remove_each    remove_all calls `self.remove(t)` once per match on ONE list object.  Every concrete `remove`
                 (_ChildrenList / _PredecessorsList / _SuccessorsList) rebuilds the owner's list and writes it through the owner's
                 property setter: the source of the rebuild must be current at every call - the owner's property read again
                 (`self.__parent.predecessors`), or the wrapper's own `_list` ONLY when the setter never rebinds the backing
                 field the getter hands to the wrapper (children: cleared and refilled in place).  A rebuild from `self._list`
                 / `self` combined with a setter that binds a new list (`self.__predecessors = [..]`) is refuted: after the
                 first removal the snapshot is stale and the next one re-adds what was removed (C18-r33).  In-place removal
                 from `self._list` is accepted; any other design of `remove` is UNDECIDED.

Floors (sites read on today's tree): suffix_table 12 (11 suffixes + plain keyword), resolver 20 (18 public attributes + a custom
attribute + a custom `parent_..` attribute + parent_id = 21 today), all_filters 1 (the single return of __call__), result 3, readonly 19 (7 query functions + 12 getters),
bulk_assign 1, remove_all 9 (per variant: query, removal, "all returns" counted once so that merging returns is not an
analysis error; WBS.tasks; two sites in WBS.__remove), remove_each 3.  A function end reachable without `return` counts as
`return None`.

Round 5: a local alias of the resolver bound once in `__call__` / `search` (`attribute_of = self.__get_task_attribute`) reads
like the resolver; one-expression package helpers called in the filter branches (`_like(val, pattern)`) are replaced by their
expression before the truth table is built (C18-r51: `_not_like_` as the plain negation of a None-safe `_like` lets None pass);
remove_each also reads `setattr(owner, '<prop>', ..)` / `getattr(owner, '<prop>')` with the name given as a literal, a local
or a class constant of the concrete list class (`_link_property`), and judges a `remove` inherited from a shared base class once
per concrete class; a result built from `next(([t] for t in self._list if C), [])` (or with that on one side of a conditional
expression) is refuted: only the first task with C is kept (C18-r53).

Round 6: `k.endswith('<S>')` inside a larger expression (a `negated = k.endswith('_not_like_')` flag, `k[0:-10] if negated else
k[0:-6]`, `found == negated`) is evaluated per suffix and folded, so two suffixes may share one branch as long as strip length
and truth table are right for each; a keyword splitter `k, suffix = _split(k)` whose body is a first-match loop over a tuple of
constants is unrolled into the if/elif chain it performs (a misordered tuple is then refuted like a misordered chain); a test
of the FILTER VALUE (`v is None`) is a third variable of the truth table - the decision must not depend on it (C18-r61), with
`attr == None <=> attr is None` taken into account for the plain keyword and `_ne_`; the resolver is also run for a custom
attribute whose name starts with `parent_` (C18-r62: generalising parent_id shadows it); when WBS.remove_all removes through
the public `WBS.remove`, that method may raise only for argument-type guards - a guard on the task's state (`task.wbs is not
self`, `task not in self.tasks`) is refuted: a match that left with a removed ancestor makes remove_all raise midway (C18-r63).

Round 7: a walker flattened into one loop over `[current] + list(current.all_children)` (also built with `+=` / `.extend`) that
tries `candidate.children.remove(task)` on every candidate is read as a walk: the candidates must be the node AND all its
descendants (only `current.children`, no `[current]`, a slice are refuted); "no recursive call" is refuted only when the walker
has no loop at all, otherwise UNDECIDED.  `<no filters given> or search(t, **kwargs)` (`not kwargs`, `len(kwargs) == 0`, ..) and
`search(..) if kwargs else True` are the keyword filters applied; `kwargs or search(..)` / an operand about the task stay refuted.
A remove_all that has no up-front query but evaluates one per task inside a nested predicate handed to the removing walk is
refuted by name (C18-r73: the filters see a partially pruned tree); no query at all but calls the rule does not follow ->
UNDECIDED.

Round 8: a predicate chosen once (`predicate = _match_any if key is None else key`, also by if/else or with a lambda) and applied
as `predicate(t)` is distributed over the choice and the module-level one-expression null object (`return True`) is inlined, so
the filter reads `key is None or key(t)`; a filter `key is not None` (rejects everything without a key) and `key is not None or
key(t)` are refuted.  Besides `v is None`, any other test of the filter value alone (`type(v) is list`, `isinstance(v, ..)`) is a
free variable of the truth table: the decision must not depend on the kind of filter value (C18-r82: a list value turned the
plain keyword into `not in`).

Round 9: `search(t)` as a closure that iterates the enclosing (never reassigned) `**kwargs` itself; the suffix chain moved into a
method / function (`if not self.__filter_holds(t, k, v): return False`): an if/return chain helper is folded into one
expression (conditional expressions are decided path by path); template methods of the list classes (`self._assign_links(..)`
= `self._owner.<prop> = links`, `self._current_links()`) are resolved in the concrete class for remove_each; nested defs of
order_by that share a name (two `def sort_key`) are analysed through a stand-in; an early empty result decided from one filter
(`if k.endswith('_in_') and len(v) == 0: return _ImmutableTaskList([])`) is sound only if every suffix taking that branch is
`_in_` (C18-r91: `_not_in_` also ends with `_in_`); a remove_all without a `remove` call per match that assigns / deletes
something is another design (UNDECIDED), not a missing removal.

Round 10: `search` written with for/else (`break` on the first rejecting filter, `else: return True`, `return False` after the
loop): what `break` leads to is computed, `break` then counts as a rejection; a template-method `remove` (None check, membership
guard, `self._remove_existing(task)`) is followed into the hook of the concrete class for remove_each; a table-driven resolver
(`TABLE.get(name)` / `name in TABLE` / `TABLE[name](t)` over a dict literal {'<attribute>': function or lambda of the task}) is
evaluated per attribute; a key that is EXTENDED before the dispatch (`k += '_'`, `k = k + '_'`, f-string) is refuted (C18-r101:
`opt_in=True` becomes an `_in_` filter on `opt`); a walker that unlinks the task from `task.parent` instead of searching below
the current node is refuted by name (C18-r102), and "does not descend" is no longer said about a removal of another design.

Round 11: the iterable of the result comprehension may be a chain of pure filtering stages (`candidates = iter(self)` / `(t for t
in self if key(t))` chosen by `if key is None`, then `[t for t in candidates if search(t, **kwargs)]`): every stage is folded into
the filters (`True if key is None else key(t)`), provided both sides of the choice run over the whole list in list order; a
comparison of two truth values (`(val is None) != bool(v)`, `A == B`, `A is not B`, `A ^ B`) is decided as exclusive-or of its
sides, so a decision that depends on the truthiness of the filter value is refuted through the truth table (C18-r112:
`x_is_none_=False` inverted the test); membership decided by hashing - `val in set(v)` / `frozenset(v)` in search, or a filter
value replaced by a set in `__call__` before the filters run (`kwargs[k] = frozenset(v)`, a rebuilt `kwargs = {k: set(v) ..}`) -
is refuted (C18-r111: an unhashable attribute value raises TypeError instead of not being a member); any other rewrite of the
keyword dict in `__call__` (`kwargs[k] = ..`, `del kwargs[k]`, `.pop/.update/.setdefault/.clear`, rebinding) is UNDECIDED.

Shapes followed since round 3: the attribute resolver is today's `__get_task_attribute` or - when that anchor is gone - the
one package function `search` calls as `<fn>(<task>, <name>)` (moved to module level, to another class, nested in `__call__`);
a filter of the result comprehension / selection loop that calls a predicate nested in `__call__` (or a local bound to a
lambda) is replaced by the predicate's if/return chain folded into one boolean expression; `return <condition>` inside the
filter loop of `search` is read as `if <condition>: return True else: return False` (so it is refuted like `return True`:
the remaining filters are skipped); the key functions of `order_by` are looked for in order_by and in the private
key-function builders it calls.

Not decided: what user supplied predicates do (assumed pure); attribute names that themselves end in a filter suffix
(`is_not` + `_in_`); that `_ChildrenList.remove` detaches the whole subtree (C11 territory); regular-expression semantics;
loop-over-table re-implementations of `search` (`for suffix, op in TABLE.items()`) end as UNDECIDED, not as a pass.

Table-driven dispatch IS decided: a dict literal `NAME = {'<suffix>': operator.xx | lambda a, b: ..}` (module level, class level,
in `__call__` or in `search`; bound once) used as `k[-n:] in NAME` / `k.endswith(tuple(NAME))` / `NAME[k[-n:]]` / `NAME.get(..)`
is partially evaluated per suffix (`k[-n:]` is a constant for keys `name + suffix`), the looked-up operator call is turned into
the comparison it performs, and the result goes through the same strip / truth-table / None-guard checks as an if/elif chain.
The table is assumed not to be mutated at run time.

Named constants (`_LE = "_le_"` at module / class level or in `__call__`, bound once) are substituted before the analysis, so
`k.endswith(_LE)` / `k[:-len(_LE)]` read like their literal forms.  `__call__` may also build its result with the accumulate
idiom (`matched = []; for t in self: <guard clauses with continue>; matched.append(t)`): the guards dominating the single
`append` are read as the comprehension filters (negations pushed inwards), `break` / `return` in that loop is refuted.

A query result that is the receiver itself, its `_list`, or a new facade around the un-copied `_list` is refuted under
`result` (the result must be a new list: it is iterated by remove_all while `remove` rewrites the live list).

Engine limitations worked around here: sa.flow.Expander is not path sensitive (a local assigned in several branches is
opaque) and inlines only single-return helpers, so this module carries its own small path-enumerating symbolic executor
(`_run`, `_decide`) for `search` and the resolver; sa.cfg has no notion of "enclosing comprehension", done by containment.
"""
from __future__ import annotations

import ast
import copy
from typing import Dict, List, Optional, Tuple

from sa import facts
from sa.cfg import cfg_of
from sa.effects import Effects
from sa.flow import Expander, subst
from sa.model import AnalysisError, unmangle, walk_no_nested, src
from sa.pat import match, same, names_in

# ------------------------------------------------------------------------------------------------- the property's table
# suffix -> (family, operator).  Source: the PROPERTY text / DESIGN section 5 C18 - never read from the code.
SPEC: Dict[str, Tuple[str, object]] = {
    '_in_': ('member', 'in'),
    '_not_in_': ('member', 'not in'),
    '_is_none_': ('isnone', True),
    '_is_not_none_': ('isnone', False),
    '_ne_': ('cmp', '!='),
    '_lt_': ('cmp', '<'),
    '_le_': ('cmp', '<='),
    '_gt_': ('cmp', '>'),
    '_ge_': ('cmp', '>='),
    '_like_': ('like', True),
    '_not_like_': ('like', False),
    '': ('eq', '=='),
}
_OPS = {ast.Eq: '==', ast.NotEq: '!=', ast.Lt: '<', ast.LtE: '<=', ast.Gt: '>', ast.GtE: '>=', ast.In: 'in', ast.NotIn: 'not in',
        ast.Is: 'is', ast.IsNot: 'is not'}
_MIRROR = {'==': '==', '!=': '!=', '<': '>', '<=': '>=', '>': '<', '>=': '<=', 'is': 'is', 'is not': 'is not'}
_COMPL = {'==': '!=', '!=': '==', '<': '>=', '<=': '>', '>': '<=', '>=': '<', 'in': 'not in', 'not in': 'in'}
_ORDERING = {'<', '<=', '>', '>='}


def _spec_pass(suffix: str, n: bool, p: bool) -> bool:
    """does a filter with this suffix hold, given n = (attribute value is None) and p = (table operator atom is true)"""
    fam, op = SPEC[suffix]
    if fam in ('cmp',):
        return (not n) and p
    if fam == 'like':
        return (not n) and (p if op else not p)
    if fam == 'isnone':
        return n if op else not n
    return p            # member, eq: decided on None like on any other value


# ------------------------------------------------------------------------------------------------- symbolic execution
class _Undecided(Exception):
    def __init__(self, node, msg):
        super().__init__(msg)
        self.node, self.msg = node, msg


class _Path:
    __slots__ = ('atoms', 'kind', 'value', 'node')

    def __init__(self, atoms, kind, value=None, node=None):
        self.atoms = atoms        # [(substituted test expr, polarity, origin node)]
        self.kind = kind          # fall | continue | break | return | raise
        self.value = value        # substituted return expression
        self.node = node          # statement that ended the path


def _truth_valued(e: ast.AST) -> bool:
    """an expression whose value is True or False whatever its operands are (so `A != B` on two of them is exclusive-or)"""
    if isinstance(e, ast.Constant):
        return isinstance(e.value, bool)
    if isinstance(e, ast.UnaryOp) and isinstance(e.op, ast.Not):
        return True
    if isinstance(e, ast.Compare):
        return len(e.ops) == 1
    if isinstance(e, ast.Call) and isinstance(e.func, ast.Name) and e.func.id in ('bool', 'isinstance', 'callable', 'hasattr') \
            and not e.keywords:
        return True
    if isinstance(e, ast.BoolOp):
        return all(_truth_valued(v) for v in e.values)
    return False


def _decide(test: ast.AST, origin: ast.AST) -> List[Tuple[list, bool]]:
    """short-circuit expansion of a condition into (atoms in evaluation order, truth value) alternatives"""
    if isinstance(test, ast.UnaryOp) and isinstance(test.op, ast.Not):
        return [(a, not r) for a, r in _decide(test.operand, origin)]
    if isinstance(test, ast.BoolOp):
        is_and = isinstance(test.op, ast.And)
        alts: List[Tuple[list, Optional[bool]]] = [([], None)]
        for v in test.values:
            new = []
            for atoms, r in alts:
                if r is not None and r != is_and:       # short-circuited earlier
                    new.append((atoms, r))
                    continue
                for a2, r2 in _decide(v, origin):
                    new.append((atoms + a2, r2))
            alts = new
        return [(a, bool(r)) for a, r in alts]
    if isinstance(test, ast.Constant):
        return [([], bool(test.value))]
    if isinstance(test, ast.IfExp):
        out = []
        for a, r in _decide(test.test, origin):
            for a2, r2 in _decide(test.body if r else test.orelse, origin):
                out.append((a + a2, r2))
        return out
    if isinstance(test, ast.Compare) and len(test.ops) == 1 and isinstance(test.ops[0], (ast.Eq, ast.NotEq)) \
            and isinstance(test.left, ast.Constant) and isinstance(test.comparators[0], ast.Constant):
        return [([], (test.left.value == test.comparators[0].value) == isinstance(test.ops[0], ast.Eq))]
    if isinstance(test, ast.Call) and isinstance(test.func, ast.Name) and test.func.id == 'bool' and len(test.args) == 1 \
            and not test.keywords:
        return _decide(test.args[0], origin)
    if isinstance(test, ast.Compare) and len(test.ops) == 1 and isinstance(test.ops[0], (ast.Eq, ast.NotEq, ast.Is, ast.IsNot)) \
            and _truth_valued(test.left) and _truth_valued(test.comparators[0]) \
            and not (isinstance(test.left, ast.Constant) and isinstance(test.comparators[0], ast.Constant)):
        # `(val is None) != bool(v)` / `found == negated`-style comparison of two truth values: both sides are evaluated, the
        # result is their (in)equality
        differ = isinstance(test.ops[0], (ast.NotEq, ast.IsNot))
        out = []
        for a, r in _decide(test.left, origin):
            for a2, r2 in _decide(test.comparators[0], origin):
                out.append((a + a2, (r != r2) == differ))
        return out
    if isinstance(test, ast.BinOp) and isinstance(test.op, ast.BitXor) and _truth_valued(test.left) and _truth_valued(test.right):
        return [(a + a2, r != r2) for a, r in _decide(test.left, origin) for a2, r2 in _decide(test.right, origin)]
    return [([(test, True, origin)], True), ([(test, False, origin)], False)]


def _run(stmts: List[ast.stmt], env: Dict[str, ast.AST], atoms: list, on_for=None, budget=None) -> List[Tuple[_Path, dict]]:
    """all paths through a statement list.  Returns (path, env at the end of the path)."""
    budget = budget if budget is not None else [4000]
    if not stmts:
        return [(_Path(atoms, 'fall'), env)]
    st, rest = stmts[0], stmts[1:]
    budget[0] -= 1
    if budget[0] < 0:
        raise _Undecided(st, "too many paths to enumerate")

    def cont(env2, atoms2):
        return _run(rest, env2, atoms2, on_for, budget)

    if isinstance(st, (ast.Pass, ast.Global, ast.Nonlocal, ast.Import, ast.ImportFrom, ast.Assert)):
        return cont(env, atoms)
    if isinstance(st, ast.Expr):
        return cont(env, atoms)      # docstrings, logging, bare calls: no effect on the tracked locals
    if isinstance(st, (ast.Assign, ast.AnnAssign)):
        if isinstance(st, ast.AnnAssign):
            if st.value is None:
                return cont(env, atoms)
            tgts, value = [st.target], st.value
        else:
            tgts, value = st.targets, st.value
        val = subst(value, env)
        env2 = dict(env)
        for t in tgts:
            if isinstance(t, ast.Name):
                env2[t.id] = val
            elif isinstance(t, (ast.Tuple, ast.List)) and isinstance(val, (ast.Tuple, ast.List)) and len(t.elts) == len(val.elts) \
                    and all(isinstance(x, ast.Name) for x in t.elts):
                for x, v in zip(t.elts, val.elts):
                    env2[x.id] = v
            else:
                raise _Undecided(st, "assignment target the symbolic executor does not model")
        return cont(env2, atoms)
    if isinstance(st, ast.If):
        out = []
        for a, r in _decide(subst(st.test, env), st.test):
            for p, e2 in _run(st.body if r else st.orelse, env, atoms + a, on_for, budget):
                if p.kind == 'fall':
                    out.extend(cont(e2, p.atoms))
                else:
                    out.append((p, e2))
        return out
    if isinstance(st, ast.Return):
        if st.value is None:
            return [(_Path(atoms, 'return', ast.Constant(value=None), st), env)]
        val = subst(st.value, env)
        out = []
        for a, v in _split_ifexp(val, st.value):
            out.append((_Path(atoms + a, 'return', v, st), env))
        return out
    if isinstance(st, ast.Continue):
        return [(_Path(atoms, 'continue', None, st), env)]
    if isinstance(st, ast.Break):
        return [(_Path(atoms, 'break', None, st), env)]
    if isinstance(st, ast.Raise):
        return [(_Path(atoms, 'raise', None, st), env)]
    if isinstance(st, ast.For) and on_for is not None:
        env2 = on_for(st, env)
        return cont(env2, atoms)
    raise _Undecided(st, f"statement kind {type(st).__name__} is outside the fragment the symbolic executor handles")


def _split_ifexp(val: ast.AST, origin: ast.AST) -> List[Tuple[list, ast.AST]]:
    if isinstance(val, ast.IfExp):
        out = []
        for a, r in _decide(val.test, origin):
            for a2, v in _split_ifexp(val.body if r else val.orelse, origin):
                out.append((a + a2, v))
        return out
    return [([], val)]


def _is_const(e, value) -> bool:
    return isinstance(e, ast.Constant) and e.value is value


def _const_int(e) -> Optional[int]:
    """small integer expressions: 4, -4, len('_in_'), -len('_in_')"""
    if isinstance(e, ast.Constant) and isinstance(e.value, int) and not isinstance(e.value, bool):
        return e.value
    if isinstance(e, ast.UnaryOp) and isinstance(e.op, ast.USub):
        v = _const_int(e.operand)
        return -v if v is not None else None
    if isinstance(e, ast.Call) and isinstance(e.func, ast.Name) and e.func.id == 'len' and len(e.args) == 1 \
            and isinstance(e.args[0], ast.Constant) and isinstance(e.args[0].value, str):
        return len(e.args[0].value)
    return None


# ------------------------------------------------------------------------------------------------- search(): vocabulary
class _SearchVocab:
    """recognisers for the atoms of `search`, relative to its task parameter, the loop key/value and the resolver"""

    def __init__(self, task: str, key: str, val_is, resolver_name: str):
        self.task, self.key, self.val_is, self.resolver_name = task, key, val_is, resolver_name

    def is_key(self, e) -> bool:
        return isinstance(e, ast.Name) and e.id == self.key

    def ends(self, e) -> Optional[str]:
        """`k.endswith('S')` / `k[-n:] == 'S'` on the unmodified key -> S"""
        if isinstance(e, ast.Call) and isinstance(e.func, ast.Attribute) and e.func.attr == 'endswith' and self.is_key(e.func.value) \
                and len(e.args) == 1 and not e.keywords and isinstance(e.args[0], ast.Constant) and isinstance(e.args[0].value, str):
            return e.args[0].value
        if isinstance(e, ast.Compare) and len(e.ops) == 1 and isinstance(e.ops[0], ast.Eq):
            for a, b in ((e.left, e.comparators[0]), (e.comparators[0], e.left)):
                if isinstance(b, ast.Constant) and isinstance(b.value, str) and isinstance(a, ast.Subscript) \
                        and self.is_key(a.value) and isinstance(a.slice, ast.Slice) and a.slice.upper is None \
                        and a.slice.step is None and _const_int(a.slice.lower) == -len(b.value) and b.value:
                    return b.value
        return None

    def mentions_key_test(self, e) -> bool:
        """an `endswith`-like test we did not recognise (tuple argument, stripped receiver ...)"""
        for n in ast.walk(e):
            if isinstance(n, ast.Call) and isinstance(n.func, ast.Attribute) and n.func.attr in ('endswith', 'startswith'):
                return True
        return False

    def attr_name(self, e) -> Optional[ast.AST]:
        """e is `<resolver>(task, NAME)` -> NAME"""
        if isinstance(e, ast.Call) and not e.keywords and len(e.args) == 2:
            fn = e.func
            nm = unmangle(fn.attr) if isinstance(fn, ast.Attribute) else (fn.id if isinstance(fn, ast.Name) else None)
            if nm == self.resolver_name and isinstance(e.args[0], ast.Name) and e.args[0].id == self.task:
                return e.args[1]
        return None

    def strip(self, name: ast.AST):
        """('key',) | ('slice', n) | ('removesuffix', S) | None"""
        if self.is_key(name):
            return ('key',)
        if isinstance(name, ast.Subscript) and self.is_key(name.value) and isinstance(name.slice, ast.Slice):
            sl = name.slice
            lo_ok = sl.lower is None or _const_int(sl.lower) == 0
            if lo_ok and sl.step is None and sl.upper is not None:
                up = _const_int(sl.upper)
                if up is not None and up < 0:
                    return ('slice', -up)
                m = match(f"len({self.key}) - $n", sl.upper)
                if m and _const_int(m['n']) is not None and _const_int(m['n']) > 0:
                    return ('slice', _const_int(m['n']))
            return None
        if isinstance(name, ast.Call) and isinstance(name.func, ast.Attribute) and name.func.attr == 'removesuffix' \
                and self.is_key(name.func.value) and len(name.args) == 1 and isinstance(name.args[0], ast.Constant) \
                and isinstance(name.args[0].value, str):
            return ('removesuffix', name.args[0].value)
        return None

    def classify(self, e: ast.AST):
        """-> (kind, negated, info, NAME) with kind in N(one) P(operator) S(regex) T(ruthiness) X(swapped operands) or None"""
        neg = False
        while isinstance(e, ast.UnaryOp) and isinstance(e.op, ast.Not):
            e, neg = e.operand, not neg
        nm = self.attr_name(e)
        if nm is not None:
            return ('T', neg, None, nm)
        if isinstance(e, ast.Compare) and len(e.ops) == 1:
            l, op, r = e.left, e.ops[0], e.comparators[0]
            # value is None / is not None / == None / != None
            for a, b in ((l, r), (r, l)):
                if _is_const(b, None) and isinstance(op, (ast.Is, ast.IsNot, ast.Eq, ast.NotEq)):
                    nm = self.attr_name(a)
                    if nm is not None:
                        return ('N', neg != isinstance(op, (ast.IsNot, ast.NotEq)), None, nm)
                    rx = self.regex(a)
                    if rx is not None:       # re.search(..) is None
                        kind, fn, nm2 = rx
                        return (kind, neg != isinstance(op, (ast.Is, ast.Eq)), fn, nm2)
            o = _OPS.get(type(op))
            if o is not None:
                nl, nr = self.attr_name(l), self.attr_name(r)
                if nl is not None and self.val_is(r):
                    return ('P', neg, o, nl)
                if nl is not None and o in ('in', 'not in') and isinstance(r, ast.Call) and isinstance(r.func, ast.Name) \
                        and r.func.id in ('set', 'frozenset') and len(r.args) == 1 and not r.keywords and self.val_is(r.args[0]):
                    return ('X', neg, f"`{src(e)}` decides membership by hashing (`{src(r)}`): a task whose attribute value is "
                                      f"unhashable (a list, dict or set) makes the query raise TypeError instead of simply not being "
                                      f"a member", nl)
                if nr is not None and self.val_is(l):
                    if o in ('in', 'not in'):
                        return ('X', neg, f"`{src(e)}` tests the filter value for membership in the attribute value", nr)
                    return ('P', neg, _MIRROR[o], nr)
            return None
        rx = self.regex(e)
        if rx is not None:
            kind, fn, nm = rx
            return (kind, neg, fn, nm)
        return None

    def value_none(self, e) -> Optional[bool]:
        """`v is None` -> False, `v is not None` -> True (negated), anything else -> None"""
        neg = False
        while isinstance(e, ast.UnaryOp) and isinstance(e.op, ast.Not):
            e, neg = e.operand, not neg
        if isinstance(e, ast.Compare) and len(e.ops) == 1 and isinstance(e.ops[0], (ast.Is, ast.IsNot, ast.Eq, ast.NotEq)):
            for a, b in ((e.left, e.comparators[0]), (e.comparators[0], e.left)):
                if _is_const(b, None) and self.val_is(a):
                    return neg != isinstance(e.ops[0], (ast.IsNot, ast.NotEq))
        return None

    def value_only(self, e):
        """a condition about the filter value and nothing else (`type(v) is list`, `isinstance(v, (list, set))`, `callable(v)`)
        -> (negated, text of the positive test) else None"""
        neg = False
        while isinstance(e, ast.UnaryOp) and isinstance(e.op, ast.Not):
            e, neg = e.operand, not neg
        if isinstance(e, ast.Compare) and len(e.ops) == 1 and isinstance(e.ops[0], (ast.IsNot, ast.NotEq, ast.NotIn)):
            e = ast.Compare(left=e.left, ops=[{ast.IsNot: ast.Is, ast.NotEq: ast.Eq, ast.NotIn: ast.In}[type(e.ops[0])]()],
                            comparators=e.comparators)
            neg = not neg
        seen = [0]
        me = self

        class R(ast.NodeTransformer):
            def visit(self, n):
                if me.val_is(n):
                    seen[0] += 1
                    return ast.Constant(value=0)
                return super().visit(n)
        left = R().visit(copy.deepcopy(e))
        allowed = {'type', 'isinstance', 'callable', 'len', 'list', 'tuple', 'set', 'frozenset', 'dict', 'str', 'int', 'float', 'bool',
                   'Iterable', 'Sequence', 'Collection', 'hasattr'}
        if seen[0] and not (names_in(left) - allowed) and not any(isinstance(n, ast.Attribute) for n in ast.walk(left)):
            return (neg, src(e))
        return None

    def regex(self, e):
        """re.<fn>(V, X) / re.compile(V).<fn>(X) -> ('S', fn, NAME); swapped operands -> ('X', msg, NAME)"""
        if not (isinstance(e, ast.Call) and isinstance(e.func, ast.Attribute) and e.func.attr in ('search', 'match', 'fullmatch', 'findall')):
            return None
        fn = e.func.attr
        recv = e.func.value
        if isinstance(recv, ast.Name) and recv.id == 're' and len(e.args) == 2 and not e.keywords:
            pat, subj = e.args
        elif match("re.compile($p)", recv) and len(e.args) == 1 and not e.keywords:
            pat, subj = match("re.compile($p)", recv)['p'], e.args[0]
        else:
            return None
        nm = self.attr_name(subj)
        if nm is not None and self.val_is(pat):
            return ('S', fn, nm)
        nm = self.attr_name(pat)
        if nm is not None and self.val_is(subj):
            return ('X', f"`{src(e)}` uses the attribute value as the pattern and the filter value as the subject", nm)
        return None


# ------------------------------------------------------------------------------------------------- operator tables
_OPERATOR_FUNCS = {'eq': ast.Eq, 'ne': ast.NotEq, 'lt': ast.Lt, 'le': ast.LtE, 'gt': ast.Gt, 'ge': ast.GtE,
                   'is_': ast.Is, 'is_not': ast.IsNot}


class _Tables:
    """dict literals `NAME = {'<suffix>': operator.xx | lambda a, b: ..}` visible from `search`: module level, class level,
    the enclosing functions and `search` itself.  A name bound more than once is not used (-> the rule stays undecided)."""

    def __init__(self, func):
        self.tables: Dict[str, Optional[Dict[str, ast.AST]]] = {}
        self.consts: Dict[str, Optional[ast.Constant]] = {}     # NAME = '<literal>' / NAME = 4, bound once
        self.aliases: Dict[str, Optional[ast.AST]] = {}         # name = <attribute path / name>, bound once in an enclosing function
        self.imports = func.module.imports
        scopes = [func.module.tree.body]
        for st in func.module.tree.body:
            if isinstance(st, ast.ClassDef) and st.name == func.cls:
                scopes.append(st.body)
        chain, p = [], func
        while p is not None:
            chain.append(p)
            p = p.parent
        for fn in chain:
            scopes.append([n for n in walk_no_nested(fn.node) if isinstance(n, (ast.Assign, ast.AnnAssign))])
        enclosing = {id(b) for b in scopes[-len(chain) + 1:]} if len(chain) > 1 else set()
        for body in scopes:
            for st in body:
                tgt = val = None
                if isinstance(st, ast.Assign) and len(st.targets) == 1:
                    tgt, val = st.targets[0], st.value
                elif isinstance(st, ast.AnnAssign):
                    tgt, val = st.target, st.value
                if isinstance(tgt, ast.Name) and isinstance(val, ast.Dict) and val.keys and \
                        all(isinstance(k, ast.Constant) and isinstance(k.value, str) for k in val.keys):
                    d = {k.value: v for k, v in zip(val.keys, val.values)}
                    self.tables[tgt.id] = None if tgt.id in self.tables else d
                elif isinstance(tgt, ast.Name) and body is not scopes[-len(chain)] and isinstance(val, ast.Constant) \
                        and isinstance(val.value, (str, int)) and not isinstance(val.value, bool):
                    self.consts[tgt.id] = None if tgt.id in self.consts else val
                elif isinstance(tgt, ast.Name) and tgt.id in self.consts:
                    self.consts[tgt.id] = None
                if isinstance(tgt, ast.Name) and id(body) in enclosing:
                    # enclosing function scope: `alias = self.__getter` bound once (candidate alias of a function)
                    ok = isinstance(val, (ast.Attribute, ast.Name)) and tgt.id not in self.aliases
                    self.aliases[tgt.id] = val if ok else None

    def const_env(self, exclude=()) -> Dict[str, ast.AST]:
        """initial environment of the symbolic executor: named constants of the enclosing scopes (the function's own
        assignments are executed by the executor itself and shadow these)"""
        return {k: v for k, v in self.consts.items() if v is not None and k not in exclude}

    def lookup(self, e) -> Optional[Dict[str, ast.AST]]:
        if isinstance(e, ast.Dict) and e.keys and all(isinstance(k, ast.Constant) and isinstance(k.value, str) for k in e.keys):
            return {k.value: v for k, v in zip(e.keys, e.values)}
        if isinstance(e, ast.Name):
            return self.tables.get(e.id)
        if isinstance(e, ast.Attribute) and isinstance(e.value, ast.Name):      # self.TABLE / Class.TABLE
            return self.tables.get(e.attr)
        return None

    def operator_of(self, fn) -> Optional[type]:
        """operator.le / `le` imported from operator -> ast.LtE"""
        if isinstance(fn, ast.Attribute) and isinstance(fn.value, ast.Name) and self.imports.get(fn.value.id) == 'operator':
            return _OPERATOR_FUNCS.get(fn.attr)
        if isinstance(fn, ast.Name) and self.imports.get(fn.id, '').startswith('operator.'):
            return _OPERATOR_FUNCS.get(self.imports[fn.id].split('.', 1)[1])
        return None


_NOMATCH = '\x00<attribute name>'


class _Specialiser(ast.NodeTransformer):
    """partial evaluation of a condition for keys `name + A`: `k[-n:]` becomes a constant, lookups in operator tables are
    resolved, `operator.le(a, b)` / `(lambda a, b: a <= b)(a, b)` become comparisons, constant tests are folded"""

    def __init__(self, suffix: str, V, tables: _Tables):
        self.A, self.V, self.T = suffix, V, tables
        self.used_key = False

    def tail(self, e) -> Optional[ast.AST]:
        if isinstance(e, ast.Subscript) and self.V.is_key(e.value) and isinstance(e.slice, ast.Slice) and e.slice.upper is None \
                and e.slice.step is None:
            n = _const_int(e.slice.lower)
            if n is not None and n < 0:
                self.used_key = True
                # by assumption attribute names do not end in (part of) a suffix: a longer tail matches no table key
                return ast.Constant(value=self.A[n:] if self.A and -n <= len(self.A) else _NOMATCH)
        return None

    def _strs(self, e) -> Optional[List[str]]:
        """collection of constant strings: literal tuple/list/set, a table, tuple(table), table.keys()"""
        if isinstance(e, (ast.Tuple, ast.List, ast.Set)) and all(isinstance(x, ast.Constant) for x in e.elts):
            return [x.value for x in e.elts]
        t = self.T.lookup(e)
        if t is not None:
            return list(t)
        if isinstance(e, ast.Call) and not e.keywords:
            if isinstance(e.func, ast.Name) and e.func.id in ('tuple', 'list', 'set', 'frozenset') and len(e.args) == 1:
                return self._strs(e.args[0])
            if isinstance(e.func, ast.Attribute) and e.func.attr == 'keys' and not e.args:
                return self._strs(e.func.value)
        return None

    def visit_Subscript(self, node):
        t = self.tail(node)
        if t is not None:
            return t
        self.generic_visit(node)
        tab = self.T.lookup(node.value)
        if tab is not None and isinstance(node.slice, ast.Constant) and node.slice.value in tab:
            return copy.deepcopy(tab[node.slice.value])
        return node

    def visit_Compare(self, node):
        self.generic_visit(node)
        if len(node.ops) != 1:
            return node
        l, op, r = node.left, node.ops[0], node.comparators[0]
        if isinstance(l, ast.Constant) and isinstance(l.value, str):
            if isinstance(op, (ast.Eq, ast.NotEq)) and isinstance(r, ast.Constant):
                return ast.Constant(value=(l.value == r.value) == isinstance(op, ast.Eq))
            if isinstance(op, (ast.In, ast.NotIn)):
                strs = self._strs(r)
                if strs is not None:
                    return ast.Constant(value=(l.value in strs) == isinstance(op, ast.In))
        # <condition> == True / != False / is True ...  (a `negated` flag compared with a boolean result)
        if isinstance(op, (ast.Eq, ast.NotEq, ast.Is, ast.IsNot)):
            for a, b in ((l, r), (r, l)):
                if isinstance(b, ast.Constant) and isinstance(b.value, bool) and self._boolean(a):
                    keep = b.value == isinstance(op, (ast.Eq, ast.Is))
                    if isinstance(a, ast.Constant):
                        return ast.Constant(value=bool(a.value) == keep)
                    return a if keep else ast.UnaryOp(op=ast.Not(), operand=a)
        return node

    @staticmethod
    def _boolean(e) -> bool:
        """an expression whose value is a bool (so that `e == True` is `e`)"""
        if isinstance(e, ast.Constant):
            return isinstance(e.value, bool)
        if isinstance(e, ast.Compare):
            return True
        if isinstance(e, ast.UnaryOp) and isinstance(e.op, ast.Not):
            return True
        if isinstance(e, ast.Call) and isinstance(e.func, ast.Name) and e.func.id in ('bool', 'isinstance', 'callable'):
            return True
        if isinstance(e, ast.BoolOp):
            return all(_Specialiser._boolean(v) for v in e.values)
        return False

    def visit_IfExp(self, node):
        self.generic_visit(node)
        if isinstance(node.test, ast.Constant):
            return node.body if node.test.value else node.orelse
        return node

    def visit_UnaryOp(self, node):
        self.generic_visit(node)
        if isinstance(node.op, ast.Not) and isinstance(node.operand, ast.Constant):
            return ast.Constant(value=not node.operand.value)
        return node

    def visit_Call(self, node):
        # k.endswith('<suffix>') inside a larger expression (a `negated = k.endswith('_not_like_')` flag)
        if isinstance(node.func, ast.Attribute) and node.func.attr == 'endswith' and self.V.is_key(node.func.value) \
                and len(node.args) == 1 and not node.keywords and isinstance(node.args[0], ast.Constant) \
                and isinstance(node.args[0].value, str):
            self.used_key = True
            return ast.Constant(value=bool(self.A) and self.A.endswith(node.args[0].value))
        # k.endswith(<tuple of suffixes / table>)
        if isinstance(node.func, ast.Attribute) and node.func.attr == 'endswith' and self.V.is_key(node.func.value) \
                and len(node.args) == 1 and not node.keywords and not isinstance(node.args[0], ast.Constant):
            strs = self._strs(node.args[0])
            if strs is not None:
                self.used_key = True
                return ast.Constant(value=bool(self.A) and any(self.A.endswith(x) for x in strs))
        self.generic_visit(node)
        fn = node.func
        # TABLE.get('<suffix>'[, default])
        if isinstance(fn, ast.Attribute) and fn.attr == 'get' and node.args and isinstance(node.args[0], ast.Constant) \
                and not node.keywords and len(node.args) <= 2:
            tab = self.T.lookup(fn.value)
            if tab is not None:
                if node.args[0].value in tab:
                    return copy.deepcopy(tab[node.args[0].value])
                return node.args[1] if len(node.args) == 2 else ast.Constant(value=None)
        if len(node.args) == 2 and not node.keywords:
            opc = self.T.operator_of(fn)
            if opc is not None:
                return ast.Compare(left=node.args[0], ops=[opc()], comparators=[node.args[1]])
            if isinstance(fn, ast.Attribute) and fn.attr == 'contains' and self.T.operator_of(
                    ast.Attribute(value=fn.value, attr='eq', ctx=ast.Load())) is not None:
                return ast.Compare(left=node.args[1], ops=[ast.In()], comparators=[node.args[0]])
            if isinstance(fn, ast.Lambda) and len(fn.args.args) == 2 and not fn.args.defaults and not fn.args.vararg \
                    and not fn.args.kwarg and not fn.args.kwonlyargs:
                return subst(fn.body, {fn.args.args[0].arg: node.args[0], fn.args.args[1].arg: node.args[1]})
        return node


# ------------------------------------------------------------------------------------------------- helpers for lists
def _whole(e: ast.AST, is_base, order_matters=False):
    """is e the whole collection `base` (possibly copied)?  -> 'whole' | ('filtered', why) | ('reordered', why) | None"""
    if is_base(e):
        return 'whole'
    if isinstance(e, ast.Call) and isinstance(e.func, ast.Name) and len(e.args) == 1 and not e.keywords:
        if e.func.id in ('list', 'tuple', 'iter'):
            return _whole(e.args[0], is_base, order_matters)
        if e.func.id in ('reversed', 'sorted', 'set', 'frozenset'):
            r = _whole(e.args[0], is_base, order_matters)
            if r == 'whole' and order_matters:
                return ('reordered', f"{e.func.id}(..) does not keep the list order")
            return r
    if isinstance(e, ast.Call) and isinstance(e.func, ast.Attribute) and e.func.attr == 'copy' and not e.args:
        return _whole(e.func.value, is_base, order_matters)
    if isinstance(e, ast.Subscript) and isinstance(e.slice, ast.Slice):
        r = _whole(e.value, is_base, order_matters)
        if r == 'whole' and not (e.slice.lower is None and e.slice.upper is None and e.slice.step is None):
            return ('filtered', f"slice `{src(e)}` leaves elements out")
        return r
    if isinstance(e, ast.IfExp):
        # `A if c else B`: the whole collection only if both sides are
        ra, rb = _whole(e.body, is_base, order_matters), _whole(e.orelse, is_base, order_matters)
        for r in (ra, rb):
            if isinstance(r, tuple):
                return (r[0], r[1] + f" (on one side of `.. if {src(e.test)} else ..`)")
        return 'whole' if ra == 'whole' and rb == 'whole' else None
    if isinstance(e, ast.Call) and isinstance(e.func, ast.Name) and e.func.id == 'next' and e.args and not e.keywords \
            and isinstance(e.args[0], (ast.GeneratorExp, ast.ListComp)) and len(e.args[0].generators) == 1:
        # next(([t] for t in X if C), []): at most the FIRST element satisfying C
        gen = e.args[0].generators[0]
        elt = e.args[0].elt
        one = isinstance(elt, (ast.List, ast.Tuple)) and len(elt.elts) == 1 and isinstance(gen.target, ast.Name) \
            and match(gen.target.id, elt.elts[0])
        if one and _whole(gen.iter, is_base, order_matters) == 'whole':
            cond = ' and '.join(src(c) for c in gen.ifs) or 'True'
            return ('filtered', f"`next(..)` keeps only the FIRST task with `{cond}`; every further task of the list satisfying it is "
                                f"left out")
        return None
    if isinstance(e, ast.Call) and isinstance(e.func, ast.Attribute) and e.func.attr == 'values' and not e.args and not e.keywords \
            and isinstance(e.func.value, ast.DictComp) and len(e.func.value.generators) == 1:
        # {K(t): t for t in X}.values(): one task per key
        dc = e.func.value
        gen = dc.generators[0]
        if isinstance(gen.target, ast.Name) and isinstance(dc.value, ast.Name) and dc.value.id == gen.target.id:
            r = _whole(gen.iter, is_base, order_matters)
            if r == 'whole' and gen.ifs:
                return ('filtered', "comprehension filter `" + ' and '.join(src(c) for c in gen.ifs) + "`")
            if r == 'whole' and not match(f"id({gen.target.id})", dc.key):
                return ('filtered', f"the dict keyed by `{src(dc.key)}` keeps one task per key: of several tasks with the same "
                                    f"`{src(dc.key)}` only the last one is left")
            return r
    parts = facts.comp_parts(e) if isinstance(e, (ast.ListComp, ast.GeneratorExp)) else None
    if parts:
        elt, tgt, it, ifs = parts
        if isinstance(tgt, ast.Name) and isinstance(elt, ast.Name) and elt.id == tgt.id:
            r = _whole(it, is_base, order_matters)
            if r == 'whole' and ifs:
                return ('filtered', "comprehension filter `" + ' and '.join(src(c) for c in ifs) + "`")
            return r
    return None


def _enclosing_comp(func, node, var: str):
    """innermost comprehension of func that contains node and binds var"""
    best = None
    for n in walk_no_nested(func.node):
        if isinstance(n, (ast.ListComp, ast.GeneratorExp, ast.SetComp)):
            if any(isinstance(g.target, ast.Name) and g.target.id == var for g in n.generators) and \
                    any(x is node for x in ast.walk(n)):
                best = n
    return best


def _enclosing_for(func, node, var: str) -> Optional[ast.For]:
    """innermost `for var in ..` statement of func whose body contains node (by containment: a `break` in the body does not
    hide the loop, unlike cfg.enclosing_fors which asks for a way back to the header)"""
    best = None
    for n in walk_no_nested(func.node):
        if isinstance(n, ast.For) and isinstance(n.target, ast.Name) and n.target.id == var and \
                any(x is node for st in n.body for x in ast.walk(st)):
            best = n
    return best


def _implicit_returns(func) -> list:
    """cfg nodes from which the function end is reached without a `return` statement (the call then yields None)"""
    cfg = cfg_of(func)
    return [p for p in cfg.exit.pred if cfg.is_reachable(p) and not isinstance(p.ast, ast.Return)]


_FLIP = {ast.Is: ast.IsNot, ast.IsNot: ast.Is, ast.Eq: ast.NotEq, ast.NotEq: ast.Eq, ast.In: ast.NotIn, ast.NotIn: ast.In}


def _nnf(e: ast.AST, pol: bool = True) -> ast.AST:
    """the condition (e with polarity pol) as one positive expression: negations pushed inwards (De Morgan, is/is not ...)"""
    if isinstance(e, ast.UnaryOp) and isinstance(e.op, ast.Not):
        return _nnf(e.operand, not pol)
    if isinstance(e, ast.BoolOp):
        op = e.op if pol else (ast.Or() if isinstance(e.op, ast.And) else ast.And())
        return ast.BoolOp(op=op, values=[_nnf(v, pol) for v in e.values])
    if pol:
        return e
    if isinstance(e, ast.Compare) and len(e.ops) == 1 and type(e.ops[0]) in _FLIP:
        return ast.Compare(left=e.left, ops=[_FLIP[type(e.ops[0])]()], comparators=e.comparators)
    return ast.UnaryOp(op=ast.Not(), operand=e)


def _loop_exits(for_node: ast.For) -> List[ast.stmt]:
    out = []
    for st in for_node.body:
        for n in walk_no_nested(st):
            if isinstance(n, (ast.Break, ast.Return)):
                out.append(n)
    return out


def _stmts_expr(stmts: List[ast.stmt], env: Dict[str, ast.AST], budget=None) -> ast.AST:
    """value returned by a straight-line / if-return function body as ONE expression (`A if c else <rest>`)"""
    budget = budget if budget is not None else [200]
    budget[0] -= 1
    if budget[0] < 0:
        raise _Undecided(stmts[0] if stmts else None, "predicate body too large to fold into an expression")
    if not stmts:
        return ast.Constant(value=None)
    st, rest = stmts[0], stmts[1:]
    if isinstance(st, ast.Return):
        return subst(st.value, env) if st.value is not None else ast.Constant(value=None)
    if isinstance(st, (ast.Pass, ast.Expr, ast.Assert)):
        return _stmts_expr(rest, env, budget)
    if isinstance(st, ast.If):
        return ast.IfExp(test=subst(st.test, env), body=_stmts_expr(st.body + rest, env, budget),
                         orelse=_stmts_expr(st.orelse + rest, env, budget))
    if isinstance(st, (ast.Assign, ast.AnnAssign)):
        tgts = st.targets if isinstance(st, ast.Assign) else [st.target]
        if st.value is not None and len(tgts) == 1 and isinstance(tgts[0], ast.Name):
            env2 = dict(env)
            env2[tgts[0].id] = subst(st.value, env)
            return _stmts_expr(rest, env2, budget)
    raise _Undecided(st, f"statement kind {type(st).__name__} in a predicate helper cannot be folded into an expression")


def _bool_simplify(e: ast.AST) -> ast.AST:
    """an expression used only for its truth value: `False if c else X` -> `not c and X`, `True if c else X` -> `c or X`,
    `X if c else False` -> `c and X`, `X if c else True` -> `not c or X`, `bool(X)` -> X"""
    if isinstance(e, ast.Call) and isinstance(e.func, ast.Name) and e.func.id == 'bool' and len(e.args) == 1 and not e.keywords:
        return _bool_simplify(e.args[0])
    if isinstance(e, ast.BoolOp):
        return ast.BoolOp(op=e.op, values=[_bool_simplify(v) for v in e.values])
    if isinstance(e, ast.UnaryOp) and isinstance(e.op, ast.Not):
        return ast.UnaryOp(op=ast.Not(), operand=_bool_simplify(e.operand))
    if isinstance(e, ast.IfExp):
        b, o = _bool_simplify(e.body), _bool_simplify(e.orelse)
        if _is_const(b, False):
            return ast.BoolOp(op=ast.And(), values=[_nnf(e.test, False), o])
        if _is_const(b, True):
            return ast.BoolOp(op=ast.Or(), values=[e.test, o])
        if _is_const(o, False):
            return ast.BoolOp(op=ast.And(), values=[e.test, b])
        if _is_const(o, True):
            return ast.BoolOp(op=ast.Or(), values=[_nnf(e.test, False), b])
        return ast.IfExp(test=e.test, body=b, orelse=o)
    return e


def _inline_predicates(prog, f, cond: ast.AST, keep=(), expand=None) -> ast.AST:
    """calls of local predicate helpers in a filter condition replaced by their body: functions nested in f (other than those
    named in `keep`) whose body is an if/return chain over their parameters, and immediately applied lambdas"""
    nested = {g.name: g for g in prog.all_funcs() if g.parent is not None and g.parent.qual == f.qual and g.kind != 'lambda'
              and g.name not in keep}

    class T(ast.NodeTransformer):
        depth = 0

        def visit_Call(self, node):
            self.generic_visit(node)
            if node.keywords or any(isinstance(a, ast.Starred) for a in node.args):
                return node
            fn = node.func
            if isinstance(fn, ast.Name) and fn.id not in nested and fn.id not in keep:
                # a local bound once to a lambda:  accepted = lambda t: ..
                from sa.flow import flow_of
                defs = flow_of(f).defs_of(fn.id)
                if len(defs) == 1 and defs[0].kind == 'assign' and isinstance(defs[0].value, (ast.Lambda, ast.IfExp)):
                    fn = copy.deepcopy(defs[0].value)
                elif len(defs) > 1 and expand is not None and fn.id not in f.params:
                    # chosen in an if/else: the Expander joins the definitions into `A if c else B`
                    try:
                        j = expand(ast.copy_location(ast.Name(id=fn.id, ctx=ast.Load()), node))
                    except Exception:
                        j = None
                    if isinstance(j, ast.IfExp):
                        fn = j
            if isinstance(fn, ast.IfExp) and self.depth < 4:
                # a predicate chosen once:  predicate = _match_any if key is None else key;  predicate(t)
                self.depth += 1
                try:
                    return ast.IfExp(test=fn.test,
                                     body=self.visit(ast.Call(func=fn.body, args=copy.deepcopy(node.args), keywords=[])),
                                     orelse=self.visit(ast.Call(func=fn.orelse, args=copy.deepcopy(node.args), keywords=[])))
                finally:
                    self.depth -= 1
            if isinstance(fn, ast.Name) and fn.id not in nested and fn.id not in keep and fn.id not in f.params:
                # a module-level one-expression predicate (`def _match_any(_task): return True`)
                g = prog.module_func(f.module.name, fn.id)
                if g is None and fn.id in f.module.imports:
                    origin = prog.resolve_import(f.module, fn.id)
                    g = prog.funcs.get(origin) if origin else None
                if g is not None and g.kind == 'function' and isinstance(g.node, ast.FunctionDef):
                    body = [st for st in g.node.body if not (isinstance(st, ast.Expr) and isinstance(st.value, ast.Constant))]
                    a = g.node.args
                    if len(body) == 1 and isinstance(body[0], ast.Return) and body[0].value is not None and not (
                            a.vararg or a.kwarg or a.kwonlyargs or a.defaults) and len(a.args) == len(node.args):
                        return _bool_simplify(subst(body[0].value, {p.arg: v for p, v in zip(a.args, node.args)}))
            if isinstance(fn, ast.Lambda):
                a = fn.args
                if a.vararg or a.kwarg or a.kwonlyargs or a.defaults or len(a.args) != len(node.args):
                    return node
                return _bool_simplify(subst(fn.body, {p.arg: v for p, v in zip(a.args, node.args)}))
            if isinstance(fn, ast.Name) and fn.id in nested and self.depth < 4:
                g = nested[fn.id]
                a = g.node.args
                if a.vararg or a.kwarg or a.kwonlyargs or a.defaults or len(a.args) != len(node.args):
                    return node
                if any(isinstance(n, (ast.For, ast.While, ast.Try, ast.With)) for n in walk_no_nested(g.node)):
                    return node
                try:
                    e = _bool_simplify(_stmts_expr(g.body, {p.arg: v for p, v in zip(a.args, node.args)}))
                except _Undecided:
                    return node
                self.depth += 1
                try:
                    return self.visit(e)
                finally:
                    self.depth -= 1
            return node
    # (the Expander may already have folded a nested predicate into `A if c else B`: simplify that form as well)
    return ast.fix_missing_locations(_bool_simplify(T().visit(copy.deepcopy(cond))))


def _filter_atoms(c: ast.AST) -> List[Tuple[ast.AST, bool]]:
    """conjuncts of a filter condition; a negated and/or is pushed inwards first (`not (k is not None and not k(t))` is the
    atom `k is None or k(t)`)"""
    out = []
    for at, pol in facts.split_conj(c, True):
        if not pol and isinstance(at, ast.BoolOp):
            pos = _nnf(at, False)
            if isinstance(pos, ast.BoolOp) and isinstance(pos.op, ast.And):
                out += _filter_atoms(pos)
            else:
                out.append((pos, True))
        else:
            out.append((at, pol))
    return out


def _delegated_body(prog, f):
    """`def f(..): return g(<args>)` with g a module-level package function (the shared body of several operations, possibly
    taking callbacks): a synthetic copy of f with g's body spliced in - parameters bound by leading assignments, lambda
    arguments beta-reduced at their call sites - so that the rules read the operation as if it were written in place.
    Anything not understood -> f itself."""
    from sa.model import Func
    stmts = [st for st in f.body if not (isinstance(st, ast.Expr) and isinstance(st.value, ast.Constant))]
    if len(stmts) != 1 or not isinstance(stmts[0], ast.Return) or not isinstance(stmts[0].value, ast.Call):
        return f
    call = stmts[0].value
    if not isinstance(call.func, ast.Name) or any(isinstance(x, ast.Starred) for x in call.args) or any(k.arg is None for k in call.keywords):
        return f
    g = prog.module_func(f.module.name, call.func.id)
    if g is None and call.func.id in f.module.imports:
        origin = prog.resolve_import(f.module, call.func.id)
        g = prog.funcs.get(origin) if origin else None
    if g is None or g.kind != 'function' or not isinstance(g.node, ast.FunctionDef):
        return f
    a = g.node.args
    if a.vararg or a.kwarg or a.kwonlyargs or a.posonlyargs:
        return f
    if any(isinstance(n, ast.Call) and isinstance(n.func, ast.Name) and n.func.id == g.name for n in ast.walk(g.node)):
        return f                     # recursive
    if any(isinstance(n, (ast.FunctionDef, ast.Lambda, ast.Yield, ast.YieldFrom, ast.Global, ast.Nonlocal)) for st in g.node.body for n in ast.walk(st)):
        return f
    bound = facts.bound_args(call, g, drop_self=False)
    if len(bound) != len(g.params) or any(b is None for b in bound) or len(call.args) + len(call.keywords) != len(g.params):
        return f
    stored = {n.id for st in g.node.body for n in ast.walk(st) if isinstance(n, ast.Name) and isinstance(n.ctx, ast.Store)}
    arg_names = set()
    for b in bound:
        if isinstance(b, ast.Lambda):
            arg_names |= names_in(b.body) - {x.arg for x in b.args.args}
        else:
            arg_names |= names_in(b)
    same_name = {p for p, b in zip(g.params, bound) if isinstance(b, ast.Name) and b.id == p}     # `key=key`: nothing to bind
    if (stored | (set(g.params) - same_name)) & (arg_names | set(f.params)):
        return f                     # a local of g would capture a name of the caller
    lambdas = {p: b for p, b in zip(g.params, bound) if isinstance(b, ast.Lambda)}
    for p, b in zip(g.params, bound):
        # a bound method handed over as callback (`self.remove`) reads like `lambda *a: self.remove(*a)`
        if isinstance(b, ast.Attribute) and isinstance(b.value, ast.Name) and b.value.id == f.self_name and \
                f.cls and prog.find_method(f.cls, unmangle(b.attr)) is not None:
            m = prog.find_method(f.cls, unmangle(b.attr))
            n_args = len(m.params) - (1 if m.kind in ('method', 'classmethod') else 0)
            la = ast.arguments(posonlyargs=[], args=[ast.arg(arg=f'_a{i}') for i in range(n_args)], vararg=None, kwonlyargs=[],
                               kw_defaults=[], kwarg=None, defaults=[])
            lambdas[p] = ast.Lambda(args=la, body=ast.Call(func=copy.deepcopy(b), args=[ast.Name(id=f'_a{i}', ctx=ast.Load())
                                                                                       for i in range(n_args)], keywords=[]))
    for lam in lambdas.values():
        la = lam.args
        if la.vararg or la.kwarg or la.kwonlyargs or la.defaults or la.posonlyargs:
            return f
    if stored & set(g.params):
        return f                     # parameter reassigned in g
    body = [copy.deepcopy(st) for st in g.node.body]
    ok = [True]

    class Beta(ast.NodeTransformer):
        def visit_Call(self, node):
            if isinstance(node.func, ast.Name) and node.func.id in lambdas:
                lam = lambdas[node.func.id]
                args = [self.visit(x) for x in node.args]
                if node.keywords or len(args) != len(lam.args.args) or any(isinstance(x, ast.Starred) for x in args):
                    ok[0] = False
                    return node
                return ast.copy_location(subst(lam.body, {p.arg: v for p, v in zip(lam.args.args, args)}), node)
            return self.generic_visit(node)

        def visit_Name(self, node):
            if node.id in lambdas:
                ok[0] = False        # the callback escapes (passed on, stored): not modelled
            return node

    body = [Beta().visit(st) for st in body]
    if not ok[0]:
        return f
    prefix = []
    for p, b in zip(g.params, bound):
        if p in lambdas or p in same_name:
            continue
        asg = ast.Assign(targets=[ast.Name(id=p, ctx=ast.Store())], value=copy.deepcopy(b))
        prefix.append(ast.copy_location(asg, stmts[0]))
    new = copy.copy(f.node)
    new.body = prefix + body
    ast.fix_missing_locations(new)
    return Func(qual=f.qual + '+' + g.name, name=f.name, node=new, module=f.module, cls=f.cls, kind=f.kind, parent=f.parent, prop=f.prop)


def _inline_value_helpers(prog, f, stmts: List[ast.stmt], skip=()) -> List[ast.stmt]:
    """copies of the statements with calls of one-expression package helpers (`def _like(val, pattern): return <expr>`;
    module-level / imported functions and methods called on self) replaced by that expression over the arguments, so that
    the symbolic executor sees the None test / comparison / regular-expression search the helper performs"""
    def callee(n):
        fn = n.func
        if isinstance(fn, ast.Name):
            g = prog.module_func(f.module.name, fn.id)
            if g is None and fn.id in f.module.imports:
                origin = prog.resolve_import(f.module, fn.id)
                g = prog.funcs.get(origin) if origin else None
            return g
        if isinstance(fn, ast.Attribute) and isinstance(fn.value, ast.Name) and f.cls and \
                (fn.value.id == f.self_name or fn.value.id == f.cls):
            return prog.find_method(f.cls, unmangle(fn.attr))
        return None

    class T(ast.NodeTransformer):
        depth = 0

        def visit_Call(self, node):
            self.generic_visit(node)
            g = callee(node)
            if g is None or g.qual in skip or self.depth > 3 or not isinstance(g.node, ast.FunctionDef):
                return node
            body = [st for st in g.node.body if not (isinstance(st, ast.Expr) and isinstance(st.value, ast.Constant))]
            a = g.node.args
            if not body or a.vararg or a.kwarg or a.kwonlyargs:
                return node
            if any(isinstance(x, ast.Starred) for x in node.args) or any(k.arg is None for k in node.keywords):
                return node
            bound = facts.bound_args(node, g)
            params = g.params[1:] if g.kind in ('method', 'classmethod') else g.params
            if len(bound) != len(params) or any(b is None for b in bound):
                return node
            bind = dict(zip(params, bound))
            if g.kind == 'method':
                # its own self is the receiver of the call (`self.__filter_holds(..)` from the nested search: the same object)
                if not (isinstance(node.func, ast.Attribute) and isinstance(node.func.value, ast.Name) and node.func.value.id == f.self_name):
                    return node
                bind[g.params[0]] = node.func.value
            if len(body) == 1 and isinstance(body[0], ast.Return) and body[0].value is not None:
                e = subst(body[0].value, bind)
            else:
                # an if/return chain (`if k.endswith(..): ..; if <reject>: return False .. return True`) folded into one expression
                if any(isinstance(n, (ast.For, ast.While, ast.Try, ast.With, ast.Raise, ast.FunctionDef, ast.Lambda, ast.Yield))
                       for st in body for n in ast.walk(st)):
                    return node
                stored = {n.id for st in body for n in ast.walk(st) if isinstance(n, ast.Name) and isinstance(n.ctx, ast.Store)}
                if (stored - set(g.params)) & set().union(*[names_in(b) for b in bound] or [set()]):
                    return node          # a local of the helper would capture a name of an argument
                try:
                    e = _bool_simplify(_stmts_expr(body, bind))
                except _Undecided:
                    return node
            self.depth += 1
            try:
                return ast.copy_location(self.visit(e), node)
            finally:
                self.depth -= 1
    return [ast.fix_missing_locations(T().visit(copy.deepcopy(st))) for st in stmts]


def _unroll_first_match(prog, f, stmts: List[ast.stmt]) -> List[ast.stmt]:
    """`<targets> = g(<args>)` where g is a package function of the shape
           for x in (<constants>): if <test>: return <E>
           return <E0>
    becomes the if/elif chain it performs (`if <test[x:=c1]>: <targets> = <E[x:=c1]> elif .. else: <targets> = <E0>`), so that a
    keyword splitter (`k, suffix = _split_filter_keyword(k)`) is executed symbolically like an in-line endswith chain"""
    out = []
    for st in stmts:
        new = None
        if isinstance(st, ast.Assign) and len(st.targets) == 1 and isinstance(st.value, ast.Call) and isinstance(st.value.func, ast.Name) \
                and not st.value.keywords and not any(isinstance(a, ast.Starred) for a in st.value.args):
            g = prog.module_func(f.module.name, st.value.func.id)
            if g is None and st.value.func.id in f.module.imports:
                origin = prog.resolve_import(f.module, st.value.func.id)
                g = prog.funcs.get(origin) if origin else None
            body = [x for x in g.node.body if not (isinstance(x, ast.Expr) and isinstance(x.value, ast.Constant))] \
                if g is not None and isinstance(g.node, ast.FunctionDef) else []
            if len(body) == 2 and isinstance(body[0], ast.For) and isinstance(body[1], ast.Return) and body[1].value is not None \
                    and not body[0].orelse and isinstance(body[0].target, ast.Name) and len(body[0].body) == 1 \
                    and isinstance(body[0].body[0], ast.If) and not body[0].body[0].orelse and len(body[0].body[0].body) == 1 \
                    and isinstance(body[0].body[0].body[0], ast.Return) and body[0].body[0].body[0].value is not None \
                    and len(g.params) == len(st.value.args):
                it = body[0].iter
                if isinstance(it, ast.Name):          # a module-level tuple of constants
                    for ms in g.module.tree.body:
                        if isinstance(ms, ast.Assign) and len(ms.targets) == 1 and isinstance(ms.targets[0], ast.Name) \
                                and ms.targets[0].id == it.id:
                            it = ms.value
                if isinstance(it, (ast.Tuple, ast.List)) and it.elts and all(isinstance(c, ast.Constant) for c in it.elts):
                    bind = dict(zip(g.params, st.value.args))
                    x = body[0].target.id
                    inner = body[0].body[0]
                    chain = [ast.Assign(targets=copy.deepcopy(st.targets), value=subst(body[1].value, bind))]
                    for c in reversed(it.elts):
                        b2 = dict(bind)
                        b2[x] = c
                        chain = [ast.If(test=subst(inner.test, b2),
                                        body=[ast.Assign(targets=copy.deepcopy(st.targets), value=subst(inner.body[0].value, b2))],
                                        orelse=chain)]
                    new = chain[0]
                    for n in ast.walk(new):
                        ast.copy_location(n, st)
                    ast.fix_missing_locations(new)
        if new is None:
            for fld in ('body', 'orelse'):
                if isinstance(getattr(st, fld, None), list) and isinstance(st, (ast.If, ast.For, ast.While)):
                    setattr(st, fld, _unroll_first_match(prog, f, getattr(st, fld)))
        out.append(new if new is not None else st)
    return out


RESOLVER_ANCHOR = 'task._ImmutableTaskList.__get_task_attribute'


def _find_resolver(prog, search):
    """the attribute resolver behind the filters.  Today's anchor when it exists; otherwise the one package function that
    `search` calls as `<fn>(<task parameter>, <name>)` (the private static getter moved to module level, into another
    class, or nested into `__call__`)"""
    if prog.has_func(RESOLVER_ANCHOR):
        return prog.func(RESOLVER_ANCHOR)
    a = search.node.args
    task_p = a.args[0].arg if a.args else None
    found = {}
    for n in walk_no_nested(search.node):
        if not (isinstance(n, ast.Call) and len(n.args) == 2 and not n.keywords and isinstance(n.args[0], ast.Name)
                and n.args[0].id == task_p):
            continue
        fn, g = n.func, None
        if isinstance(fn, ast.Name):
            p = search.parent
            while p is not None and g is None:          # nested in an enclosing function
                g = next((x for x in prog.all_funcs() if x.parent is p and x.name == fn.id), None)
                p = p.parent
            g = g or prog.module_func(search.module.name, fn.id)
            if g is None and fn.id in search.module.imports:
                origin = prog.resolve_import(search.module, fn.id)
                g = prog.funcs.get(origin) if origin else None
        elif isinstance(fn, ast.Attribute):
            nm = unmangle(fn.attr)
            if isinstance(fn.value, ast.Name) and fn.value.id in prog.classes:
                g = prog.find_method(fn.value.id, nm)
            elif search.cls:
                g = prog.find_method(search.cls, nm)
        if g is not None:
            found[g.qual] = g
    if len(found) == 1:
        return next(iter(found.values()))
    return prog.func(RESOLVER_ANCHOR)        # raises AnchorMissing -> exit 2


# =====================================================================================================================
def check(ctx):
    prog = ctx.prog
    ctx.assume("callable filters passed by the user are pure predicates (they are applied, not analysed)")
    ctx.assume("attribute names do not themselves end in a filter suffix (e.g. an attribute `x_not` queried with `_in_`)")
    ctx.assume("attribute values are totally ordered where compared: `not a > b` is accepted for `a <= b`")

    _suffix_table(ctx)
    _resolver(ctx)
    _call_returns(ctx)
    _readonly(ctx)
    _bulk_assign(ctx)
    _remove_all(ctx)
    _remove_each(ctx)


# ------------------------------------------------------------------------------------------------- C18.suffix_table
def _suffix_table(ctx):
    prog = ctx.prog
    o = ctx.ob('suffix_table', 'R10',
               "for every suffix of the property's table (and for plain keywords) the keys carrying it are dispatched to a branch "
               "that strips exactly that suffix, applies the table's operator and rejects a None value before comparing / searching",
               floor=12)

    def body(o):
        f = prog.func('task._ImmutableTaskList.__call__.search')
        resolver = _find_resolver(prog, f)
        a = f.node.args
        outer_kw = f.parent.node.args.kwarg.arg if f.parent is not None and getattr(f.parent.node, 'args', None) is not None \
            and f.parent.node.args.kwarg is not None else None
        if a.args and a.kwarg is None and outer_kw and len(a.args) == 1 and outer_kw in names_in(f.node) and not any(
                isinstance(n, ast.Name) and n.id == outer_kw and isinstance(n.ctx, ast.Store) for n in ast.walk(f.parent.node)):
            task_p, kw_p = a.args[0].arg, outer_kw          # search(t): a closure that iterates the enclosing **kwargs directly
        elif not a.args or a.kwarg is None:
            o.undecided(f, f.node, 'search signature', "search is not `search(task, **filters)`")
            return
        else:
            task_p, kw_p = a.args[0].arg, a.kwarg.arg
        loops = []

        def on_for(st, env):
            loops.append((st, dict(env)))
            env2 = dict(env)
            for n in ast.walk(st):
                if isinstance(n, ast.Name) and isinstance(n.ctx, ast.Store):
                    env2.pop(n.id, None)
            return env2

        tables = _Tables(f)
        env_start = tables.const_env(exclude=f.params)
        for nm, val in tables.aliases.items():
            # `attribute_of = self.__get_task_attribute` in __call__: the alias reads like the resolver itself
            last = val.attr if isinstance(val, ast.Attribute) else getattr(val, 'id', None)
            if val is not None and nm not in f.params and last is not None and unmangle(last) == resolver.name:
                env_start[nm] = val
        try:
            outer = _run(f.body, env_start, [], on_for)
        except _Undecided as u:
            o.undecided(f, u.node, u.node, u.msg)
            return
        if len(loops) != 1:
            o.undecided(f, f.node, 'search', f"expected exactly one loop over the keyword filters, found {len(loops)}")
            return
        loop, env0 = loops[0]
        break_rejects = False
        if loop.orelse:
            # for .. else: `break` on the first rejecting filter, `else: return True`, `return False` after the loop
            if not any(st is loop for st in f.body):
                o.undecided(f, loop, 'for-else', "for/else in search (not a top-level statement)")
                return
            rest = f.body[[i for i, st in enumerate(f.body) if st is loop][0] + 1:]
            try:
                outer = _run(list(loop.orelse) + rest, dict(env0), [], None)          # the loop ran to its end
                after_break = _run(rest, dict(env0), [], None)
            except _Undecided as u:
                o.undecided(f, u.node, u.node, u.msg)
                return
            if after_break and all(p.kind == 'return' and _is_const(p.value, False) for p, _ in after_break):
                break_rejects = True
            elif not all(p.kind == 'return' and _is_const(p.value, True) for p, _ in after_break):
                o.undecided(f, loop, 'for-else', "what `break` in the filter loop leads to is not a constant result")
                return
        # ---- loop header:  for k, v in kw.items()   |   for k in kw  (+ v = kw[k])
        it = subst(loop.iter, env0)
        while isinstance(it, ast.Call) and isinstance(it.func, ast.Name) and it.func.id in ('list', 'tuple', 'sorted', 'iter') \
                and len(it.args) == 1 and not it.keywords:
            it = it.args[0]          # the order in which the filters are evaluated does not matter
        if match(f"{kw_p}.items()", it) and isinstance(loop.target, ast.Tuple) and len(loop.target.elts) == 2 \
                and all(isinstance(x, ast.Name) for x in loop.target.elts):
            key_v, val_v = loop.target.elts[0].id, loop.target.elts[1].id

            def val_is(e):
                return isinstance(e, ast.Name) and e.id == val_v
        elif (match(kw_p, it) or match(f"{kw_p}.keys()", it)) and isinstance(loop.target, ast.Name):
            key_v = loop.target.id

            def val_is(e):
                return bool(match(f"{kw_p}[{key_v}]", e))
        else:
            o.undecided(f, loop, loop.iter, "the filter loop is not `for k, v in <kwargs>.items()`")
            return
        # ---- the keyword must reach the dispatch as the caller wrote it: a key that is EXTENDED first (`k += '_'`,
        #      `k = k + '_'`) lets a plain keyword whose attribute name ends like an operator (`opt_in`, `size_le`) be read as an
        #      operator filter on a shorter attribute
        for n in [x for st in loop.body for x in walk_no_nested(st)]:
            grown = None
            if isinstance(n, ast.AugAssign) and isinstance(n.op, ast.Add) and isinstance(n.target, ast.Name) and n.target.id == key_v:
                grown = n
            elif isinstance(n, ast.Assign) and len(n.targets) == 1 and isinstance(n.targets[0], ast.Name) and n.targets[0].id == key_v:
                def grows(v):
                    if isinstance(v, ast.IfExp):
                        return grows(v.body) or grows(v.orelse)
                    return (isinstance(v, ast.BinOp) and isinstance(v.op, ast.Add) and isinstance(v.left, ast.Name) and v.left.id == key_v) or \
                        (isinstance(v, ast.JoinedStr) and bool(v.values) and isinstance(v.values[0], ast.FormattedValue) and
                         isinstance(v.values[0].value, ast.Name) and v.values[0].value.id == key_v and len(v.values) > 1)
                if grows(n.value):
                    grown = n
            if grown is not None:
                o.refute(f, grown, grown, f"`{src(grown)}` rewrites the keyword before the suffix dispatch: a plain keyword (equality filter) "
                                          f"whose attribute name ends like an operator - `opt_in`, `size_le`, `looks_like` - becomes an "
                                          f"operator filter on a shorter attribute; a plain keyword means equality on exactly that name")
                return
        # ---- outside the loop every exit must be `return True`
        for p, _ in outer:
            if p.kind == 'raise':
                continue
            if p.kind == 'return' and _is_const(p.value, True):
                continue
            if p.kind == 'fall' or (p.kind == 'return' and isinstance(p.value, ast.Constant) and not p.value.value):
                o.refute(f, p.node or f.node, p.node or 'end of search',
                         "search does not return True when no filter rejected the task: nothing (or not everything) matches")
            else:
                o.undecided(f, p.node or f.node, p.node or 'search', "search returns something else than a constant after the loop")
            return
        # ---- the loop body
        env_body = {k: v for k, v in env0.items() if k not in (key_v,) and not val_is(ast.Name(id=k, ctx=ast.Load()))}
        try:
            loop_body = _unroll_first_match(prog, f, _inline_value_helpers(prog, f, loop.body, skip=(resolver.qual,)))
            paths = [p for p, _ in _run(loop_body, env_body, [], None)]
        except _Undecided as u:
            o.undecided(f, u.node, u.node, u.msg)
            return
        # `return <condition>` inside the loop is `if <condition>: return True` / `else: return False`
        split = []
        for p in paths:
            if p.kind == 'return' and p.value is not None and not isinstance(p.value, ast.Constant) and \
                    isinstance(p.value, (ast.Compare, ast.BoolOp, ast.UnaryOp, ast.Call)):
                for a, r in _decide(p.value, p.node):
                    split.append(_Path(p.atoms + a, 'return', ast.Constant(value=r), p.node))
            else:
                split.append(p)
        paths = split
        V = _SearchVocab(task_p, key_v, val_is, resolver.name)
        for suffix in SPEC:
            _one_suffix(o, f, V, paths, suffix, tables, break_rejects)

    ctx.guarded(o, body)


def _one_suffix(o, f, V: _SearchVocab, paths: List[_Path], suffix: str, tables: '_Tables', break_rejects: bool = False):
    label = f"`{suffix}`" if suffix else "plain keyword (no suffix)"
    fam, op = SPEC[suffix]
    feasible: List[Tuple[_Path, list, Optional[str]]] = []
    for p in paths:
        ok, rest, branch = True, [], None
        for e, pol, org in p.atoms:
            s = V.ends(e)
            if s is None:
                # table-driven dispatch / operator lookup: evaluate what can be evaluated for keys `name + suffix`
                sp = _Specialiser(suffix, V, tables)
                e2 = sp.visit(copy.deepcopy(e))
                if isinstance(e2, ast.Constant):
                    if bool(e2.value) != pol:
                        ok = False
                        break
                    if pol and sp.used_key:
                        branch = suffix          # dispatched through a table / tuple of suffixes that contains this one
                    continue
                rest.append((ast.fix_missing_locations(e2), pol, org))
                continue
            truth = bool(suffix) and suffix.endswith(s)
            if truth != pol:
                ok = False
                break
            if pol:
                branch = s
        if ok:
            feasible.append((p, rest, branch))
    if not feasible:
        o.undecided(f, f.node, label, f"no path of the filter loop is feasible for keys with suffix {label}")
        return
    # ---- dispatch: which branch gets these keys
    branches = {b for _, _, b in feasible}
    wrong_branch = ''
    if suffix and branches == {None}:
        wrong_branch = (f"no branch recognises the suffix {label} (neither an `endswith({suffix!r})` test nor an operator-table "
                        f"entry): such keys are treated as plain attribute names; ")
    elif len(branches) == 1 and (next(iter(branches)) or '') != suffix:
        b = next(iter(branches))
        wrong_branch = (f"keys ending with {label} are handled by the branch for `{b}` (it is tested before the longer suffix "
                        f"{label}, which ends with it); ")
    # ---- classify the atoms
    names = []
    cls_paths = []
    for p, rest, branch in feasible:
        catoms = []
        for e, pol, org in rest:
            c = V.classify(e)
            if c is None:
                vn = V.value_none(e)
                if vn is not None:
                    # a test of the FILTER VALUE (`v is None`): a third variable of the truth table
                    catoms.append(('F', vn, None, pol, e, org))
                    continue
                vo = V.value_only(e)
                if vo is not None:
                    # any other test of the filter value alone (`type(v) is list`): one more free variable
                    catoms.append(('G', vo[0], vo[1], pol, e, org))
                    continue
                o.undecided(f, org, e, f"{label}: condition `{src(e)}` is not a None test, a comparison of the attribute value with "
                                       f"the filter value or a regular-expression search")
                return
            kind, neg, info, nm = c
            names.append((nm, org))
            if kind == 'X':
                o.refute(f, org, e, f"{label}: {info}; the property's table says `{_op_text(suffix)}`")
                return
            if kind == 'T':
                o.refute(f, org, e, f"{label}: the attribute value is tested for truthiness (`{src(e)}`), which rejects present but falsy "
                                    f"values such as 0, '' or False; a missing value must be recognised with `is None`")
                return
            catoms.append((kind, neg, info, pol, e, org))
        if p.kind == 'return':
            if _is_const(p.value, False):
                outcome = 'reject'
            elif _is_const(p.value, True):
                how = "`return True`" if _is_const(getattr(p.node, 'value', None), True) else \
                    f"`{src(p.node)}` (returns True when the condition holds)"
                o.refute(f, p.node, p.node, f"{label}: {how} inside the filter loop accepts the task without looking at the "
                                            f"remaining filters (every filter must hold)")
                return
            else:
                o.undecided(f, p.node, p.node, f"{label}: the loop returns a non-constant value")
                return
        elif p.kind in ('fall', 'continue'):
            outcome = 'pass'
        elif p.kind == 'break' and break_rejects:
            outcome = 'reject'        # for/else: after `break` the function returns False
        elif p.kind == 'break':
            o.refute(f, p.node, p.node, f"{label}: `break` leaves the filter loop: the remaining filters are not evaluated")
            return
        else:
            o.undecided(f, p.node, p.node or label, f"{label}: a path of the loop ends in `{p.kind}`")
            return
        cls_paths.append((catoms, outcome, p))
    # ---- strip length
    if not names:
        o.refute(f, f.node, label, f"{wrong_branch}{label}: the attribute value is never read on the paths taken by such keys")
        return
    for nm, org in names:
        st = V.strip(nm)
        if st is None:
            o.undecided(f, org, nm, f"{label}: attribute name expression `{src(nm)}` is not the key, `k[0:-n]`, `k[:-n]` or `k.removesuffix(..)`")
            return
        if suffix == '':
            if st != ('key',):
                o.refute(f, org, nm, f"plain keyword: the attribute name is `{src(nm)}`; expected the unchanged keyword")
                return
        elif st == ('key',):
            o.refute(f, org, nm, f"{wrong_branch}{label}: the suffix is not stripped from the keyword before the attribute lookup")
            return
        elif st[0] == 'slice' and st[1] != len(suffix):
            o.refute(f, org, nm, f"{wrong_branch}{label}: `{src(nm)}` strips {st[1]} characters, the suffix has {len(suffix)}")
            return
        elif st[0] == 'removesuffix' and st[1] != suffix:
            o.refute(f, org, nm, f"{wrong_branch}{label}: `{src(nm)}` removes `{st[1]}`, not the suffix {label}")
            return
    # ---- operators -> boolean variables
    norm_paths = []
    for catoms, outcome, p in cls_paths:
        lits = []
        for kind, neg, info, pol, e, org in catoms:
            truth_if_var_true = pol != neg        # the literal holds on this path iff var == truth_if_var_true
            if kind == 'N':
                lits.append(('N', truth_if_var_true, e, org, False))
            elif kind == 'P':
                if fam in ('cmp', 'member', 'eq'):
                    if info == op:
                        lits.append(('P', truth_if_var_true, e, org, info in _ORDERING))
                    elif info == _COMPL[op]:
                        lits.append(('P', not truth_if_var_true, e, org, info in _ORDERING))
                    else:
                        o.refute(f, org, e, f"{wrong_branch}{label}: the code applies `{info}` (`{src(e)}`); the property's table says "
                                            f"`{_op_text(suffix)}`")
                        return
                else:
                    o.refute(f, org, e, f"{wrong_branch}{label}: the code compares with `{info}` (`{src(e)}`); the property's table says "
                                        f"`{_op_text(suffix)}`")
                    return
            elif kind == 'F':
                lits.append(('F', truth_if_var_true, e, org, False))
            elif kind == 'G':
                lits.append(('G:' + info, truth_if_var_true, e, org, False))
            elif kind == 'S':
                if fam != 'like':
                    o.refute(f, org, e, f"{wrong_branch}{label}: the code runs a regular expression (`{src(e)}`); the property's table says "
                                        f"`{_op_text(suffix)}`")
                    return
                if info != 'search':
                    o.refute(f, org, e, f"{label}: `re.{info}` is used; the property says regular-expression *search* (`re.search`): "
                                        f"`re.{info}` only finds the pattern at the start of the value")
                    return
                lits.append(('P', truth_if_var_true, e, org, True))
        norm_paths.append((lits, outcome, p))
    # ---- truth table (f_val: the filter value is None - only when the code tests it)
    has_f = any(var == 'F' for lits, _, _ in norm_paths for var, _, _, _, _ in lits)
    gvars = sorted({var for lits, _, _ in norm_paths for var, _, _, _, _ in lits if var.startswith('G:')})
    if len(gvars) > 4:
        o.undecided(f, f.node, label, f"{label}: too many different tests of the filter value to enumerate")
        return
    import itertools
    for n_val in (False, True):
        for p_val in (True, False):
            for f_val in ((False, True) if has_f else (False,)):
                for g_vals in itertools.product((False, True), repeat=len(gvars)):
                    gmap = dict(zip(gvars, g_vals))
                    if f_val and ((fam == 'eq' and p_val != n_val) or (fam == 'cmp' and op == '!=' and p_val != (not n_val))):
                        continue         # filter value None: `attr == None` holds exactly when the attribute value is None
                    hits = []
                    for lits, outcome, p in norm_paths:
                        if all({'N': n_val, 'P': p_val, 'F': f_val, **gmap}[var] == want for var, want, _, _, _ in lits):
                            hits.append((lits, outcome, p))
                    outs = {h[1] for h in hits}
                    if len(outs) != 1:
                        o.undecided(f, f.node, label, f"{label}: the decision for (value is None={n_val}, operator atom={p_val}) is not unique")
                        return
                    lits, outcome, p = hits[0]
                    if n_val:
                        for var, want, e, org, unsafe in lits:
                            if var == 'P' and unsafe:
                                o.refute(f, org, e, f"{label}: `{src(e)}` is evaluated although the attribute value may be None (missing attribute): "
                                                    f"the None guard `is None` is missing or comes too late; a task lacking the attribute must "
                                                    f"simply not match")
                                return
                    want_pass = _spec_pass(suffix, n_val, p_val)
                    if (outcome == 'pass') != want_pass:
                        site = next((x for x in reversed(lits)), None)
                        node = site[3] if site else (p.node or f.node)
                        cons = site[2] if site else label
                        state = f"the attribute value is {'None' if n_val else 'present'} and `{_op_text(suffix, True)}` is {p_val}"
                        if fam == 'isnone':
                            state = f"the attribute value is {'None' if n_val else 'not None'}"
                        elif not n_val:
                            state = f"`{_op_text(suffix, True)}` is {p_val}"
                        if fam in ('cmp', 'like') and n_val:
                            state = "the attribute value is None (missing attribute)"
                        fl = [x for x in lits if x[0] == 'F']
                        if fl:
                            state += f" and the filter value {'is' if f_val else 'is not'} None (the code tests `{src(fl[0][2])}`: the decision " \
                                     f"must not depend on that)"
                        gl = [x for x in lits if x[0].startswith('G:')]
                        if gl:
                            state += f" and `{gl[0][0][2:]}` is {gmap[gl[0][0]]} (the decision must not depend on the kind of filter value)"
                        o.refute(f, node, cons, f"{wrong_branch}{label}: when {state} the filter {'passes' if outcome == 'pass' else 'rejects'} the "
                                                f"task; the property's table (`{_op_text(suffix)}`) says it must "
                                                f"{'pass' if want_pass else 'be rejected'}")
                        return
    # (a branch shared with a shorter suffix - `if k.endswith('_like_'): negated = k.endswith('_not_like_')` - is fine when, as
    #  checked above, strip length and truth table are those of THIS suffix)
    o.site(f, names[0][1], f"{label}: strips {len(suffix)} chars, {_op_text(suffix)}"
                            f"{', None rejected first' if fam in ('cmp', 'like') else ''}")


def _op_text(suffix: str, atom_only=False) -> str:
    fam, op = SPEC[suffix]
    if fam == 'like':
        return "re.search(filter, value)" if atom_only else ("re.search(filter, value) " + ("finds a match" if op else "finds nothing"))
    if fam == 'isnone':
        return "value is None" if (op or atom_only) else "value is not None"
    return f"value {op} filter"


# ------------------------------------------------------------------------------------------------- C18.resolver
def _public_attributes(prog):
    """(all public attribute names of Task, names stored as plain instance attributes)"""
    task = prog.cls('Task')
    init = task.methods.get('__init__')
    if init is None:
        raise AnalysisError("Task.__init__ not found")
    props = {n for n in task.getters if not n.startswith('_')}
    stored = set()
    for _, tgt, _ in facts.attr_stores(init):
        if isinstance(tgt.value, ast.Name) and tgt.value.id == init.self_name and not tgt.attr.startswith('_'):
            stored.add(tgt.attr)
    instance = stored - props - set(task.setters)
    return props | stored, instance


CUSTOM = '<custom attribute given as Task(**kwargs)>'
CUSTOM_PARENT = 'parent_<custom attribute whose name starts with parent_, e.g. parent_ticket>'


def _resolver(ctx):
    prog = ctx.prog
    o = ctx.ob('resolver', 'R10',
               "the attribute resolver behind every filter yields the real value of every public Task attribute - plain instance "
               "attributes, custom attributes and property-backed ones (estimate, spent, parent, id, ...) - and parent's id for parent_id",
               floor=20)

    def body(o):
        f = _find_resolver(prog, prog.func('task._ImmutableTaskList.__call__.search'))
        params = [p for p in f.params if p not in ('self', 'cls')] if f.kind != 'static' else f.params
        if len(params) != 2:
            o.undecided(f, f.node, 'resolver signature', "resolver is not (task, attribute_name)")
            return
        T, NM = params
        public, instance = _public_attributes(prog)
        try:
            paths = [p for p, _ in _run(f.body, _Tables(f).const_env(exclude=f.params), [], None)]
        except _Undecided as u:
            o.undecided(f, u.node, u.node, u.msg)
            return

        def is_name(e):
            return isinstance(e, ast.Name) and e.id == NM

        def is_task(e):
            return isinstance(e, ast.Name) and e.id == T

        def is_dict(e):
            return bool(match(f"{T}.__dict__", e) or match(f"vars({T})", e))

        rtables = _Tables(f)

        def table_entry(e, attr):
            """`TABLE.get(NAME)` / `TABLE[NAME]` for a dict literal {'<attribute>': <function of the task>} bound once at module /
            class level -> (True, entry or None); not such a lookup -> (False, None)"""
            tab = key = None
            if isinstance(e, ast.Call) and isinstance(e.func, ast.Attribute) and e.func.attr == 'get' and not e.keywords \
                    and len(e.args) in (1, 2) and is_name(e.args[0]) and (len(e.args) == 1 or _is_const(e.args[1], None)):
                tab = rtables.lookup(e.func.value)
            elif isinstance(e, ast.Subscript) and is_name(e.slice):
                tab = rtables.lookup(e.value)
            if tab is None:
                return False, None
            return True, tab.get(attr)

        def atom_truth(e, attr, has_parent):
            """truth value of a resolver condition for the attribute `attr` (None = not understood)"""
            hit_t, ent = table_entry(e, attr)
            if hit_t:
                return ent is not None
            if isinstance(e, ast.Compare) and len(e.ops) == 1 and isinstance(e.ops[0], (ast.Is, ast.IsNot)) \
                    and _is_const(e.comparators[0], None):
                hit_t, ent = table_entry(e.left, attr)
                if hit_t:
                    return (ent is None) == isinstance(e.ops[0], ast.Is)
            if isinstance(e, ast.Compare) and len(e.ops) == 1 and isinstance(e.ops[0], (ast.In, ast.NotIn)) and is_name(e.left) \
                    and rtables.lookup(e.comparators[0]) is not None:
                return (attr in rtables.lookup(e.comparators[0])) == isinstance(e.ops[0], ast.In)
            if isinstance(e, ast.Compare) and len(e.ops) == 1:
                l, op, r = e.left, e.ops[0], e.comparators[0]
                if isinstance(op, (ast.Eq, ast.NotEq)):
                    for a, b in ((l, r), (r, l)):
                        if is_name(a) and isinstance(b, ast.Constant) and isinstance(b.value, str):
                            return (attr == b.value) == isinstance(op, ast.Eq)
                if isinstance(op, (ast.In, ast.NotIn)) and is_name(l):
                    pos = isinstance(op, ast.In)
                    if isinstance(r, (ast.Tuple, ast.List, ast.Set)) and all(isinstance(x, ast.Constant) for x in r.elts):
                        return (attr in [x.value for x in r.elts]) == pos
                    if is_dict(r) or match(f"{T}.__dict__.keys()", r):
                        return (attr in instance or attr in (CUSTOM, CUSTOM_PARENT)) == pos
                    if match(f"dir({T})", r):
                        return (attr != 'parent_id') == pos
                if isinstance(op, (ast.Is, ast.IsNot)) and _is_const(r, None) and match(f"{T}.parent", l):
                    return (not has_parent) == isinstance(op, ast.Is)
                return None
            if isinstance(e, ast.Call) and isinstance(e.func, ast.Attribute) and is_name(e.func.value) and len(e.args) == 1 \
                    and isinstance(e.args[0], ast.Constant) and isinstance(e.args[0].value, str) and not e.keywords:
                if e.func.attr == 'startswith':
                    return attr.startswith(e.args[0].value)
                if e.func.attr == 'endswith':
                    return attr.endswith(e.args[0].value)
            if match(f"hasattr({T}, {NM})", e):
                return attr != 'parent_id'
            if match(f"{T}.parent", e):
                return has_parent
            return None

        def value_kind(v, attr, has_parent=True, depth=0):
            """'read' (real attribute read of attr) | 'dict' (instance dict only) | 'none' | 'parent.id' | None"""
            if _is_const(v, None):
                return 'none'
            if isinstance(v, ast.IfExp) and depth < 4:
                tv = atom_truth(v.test, attr, has_parent)
                return None if tv is None else value_kind(v.body if tv else v.orelse, attr, has_parent, depth + 1)
            if isinstance(v, ast.Call) and len(v.args) == 1 and not v.keywords and is_task(v.args[0]) and depth < 4:
                # <table entry>(task): the function the table holds for this attribute, applied to the task
                hit_t, ent = table_entry(v.func, attr)
                if hit_t and ent is not None:
                    g = None
                    if isinstance(ent, ast.Name):
                        g = prog.module_func(f.module.name, ent.id)
                    if isinstance(ent, ast.Lambda) and len(ent.args.args) == 1:
                        return value_kind(subst(ent.body, {ent.args.args[0].arg: v.args[0]}), attr, has_parent, depth + 1)
                    if g is not None and isinstance(g.node, ast.FunctionDef) and len(g.params) == 1:
                        gb = [st for st in g.node.body if not (isinstance(st, ast.Expr) and isinstance(st.value, ast.Constant))]
                        if len(gb) == 1 and isinstance(gb[0], ast.Return) and gb[0].value is not None:
                            return value_kind(subst(gb[0].value, {g.params[0]: v.args[0]}), attr, has_parent, depth + 1)
                    return None
            if match(f"getattr({T}, {NM}, None)", v) or match(f"getattr({T}, {NM})", v) or match(f"{T}.__getattribute__({NM})", v) \
                    or match(f"object.__getattribute__({T}, {NM})", v):
                return 'read'
            if match(f"{T}.__dict__[{NM}]", v) or match(f"{T}.__dict__.get({NM})", v) or match(f"{T}.__dict__.get({NM}, None)", v) \
                    or match(f"vars({T})[{NM}]", v) or match(f"vars({T}).get({NM})", v) or match(f"vars({T}).get({NM}, None)", v):
                return 'dict'
            if match(f"{T}.parent.id", v):
                return 'parent.id'
            if isinstance(v, ast.Call) and len(v.args) == 2 and not v.keywords and match(f"{T}.parent", v.args[0]) and \
                    unmangle(getattr(v.func, 'attr', getattr(v.func, 'id', ''))) == f.name:
                # the resolver applied to the parent: which attribute of the parent?
                x, sub = v.args[1], None
                if isinstance(x, ast.Constant) and isinstance(x.value, str):
                    sub = x.value
                elif isinstance(x, ast.Subscript) and is_name(x.value) and isinstance(x.slice, ast.Slice) and x.slice.upper is None \
                        and x.slice.step is None and _const_int(x.slice.lower) is not None and _const_int(x.slice.lower) >= 0:
                    sub = attr[_const_int(x.slice.lower):]
                if sub == 'id' and attr == 'parent_id':
                    return 'parent.id'
                return 'other:parent.' + (sub or '?')
            if isinstance(v, ast.Attribute) and is_task(v.value):
                return 'read' if v.attr == attr else 'other:' + v.attr
            if match(f"getattr({T}, $c, None)", v) or match(f"getattr({T}, $c)", v):
                c = (match(f"getattr({T}, $c, None)", v) or match(f"getattr({T}, $c)", v))['c']
                if isinstance(c, ast.Constant):
                    return 'read' if c.value == attr else 'other:' + str(c.value)
            return None

        first = [x for x in ('estimate', 'spent', 'parent', 'id') if x in public]
        attrs = first + sorted(public - set(first)) + [CUSTOM, CUSTOM_PARENT, 'parent_id']
        for attr in attrs:
            bad = False
            for has_parent in ((True, False) if attr == 'parent_id' else (True,)):
                hit = None
                for p in paths:
                    ok = True
                    for e, pol, org in p.atoms:
                        tv = atom_truth(e, attr, has_parent)
                        if tv is None:
                            o.undecided(f, org, e, f"resolver condition `{src(e)}` is not understood (attribute `{attr}`)")
                            return
                        if tv != pol:
                            ok = False
                            break
                    if ok:
                        hit = p
                        break
                if hit is None:
                    o.undecided(f, f.node, attr, f"no resolver path found for attribute `{attr}`")
                    return
                if hit.kind == 'raise':
                    o.refute(f, hit.node, hit.node, f"resolver raises for the public attribute `{attr}` instead of yielding its value")
                    bad = True
                    break
                if hit.kind == 'fall':
                    vk, vnode, vexpr = 'none', f.node, 'implicit return None'
                elif hit.kind == 'return':
                    vk, vnode, vexpr = value_kind(hit.value, attr, has_parent), hit.node, hit.value
                else:
                    o.undecided(f, hit.node, hit.node or attr, f"resolver path for `{attr}` ends in {hit.kind}")
                    return
                if vk is None:
                    o.undecided(f, vnode, vexpr, f"resolver returns `{src(vexpr)}` for `{attr}`: not a recognised attribute read")
                    return
                if attr == 'parent_id':
                    want = 'parent.id' if has_parent else 'none'
                    if vk != want:
                        o.refute(f, vnode, vexpr, f"parent_id of a task {'with' if has_parent else 'without'} parent resolves to "
                                                  f"`{src(vexpr) if not isinstance(vexpr, str) else vexpr}`; expected "
                                                  f"{'the id of the parent' if has_parent else 'None'}")
                        bad = True
                        break
                    continue
                is_prop = attr not in (CUSTOM, CUSTOM_PARENT) and attr not in instance
                if vk == 'read':
                    continue
                if vk == 'dict' and not is_prop:
                    continue
                why = "is looked up in the instance `__dict__` only" if vk == 'dict' else \
                    ("resolves to None" if vk == 'none' else f"resolves to `{src(vexpr)}`")
                extra = (": it is backed by a property (the instance dict holds the mangled field), so filters on it never see its "
                         "value - `tasks(%s=..)` matches nothing and `%s_is_none_` matches every task" % (attr, attr)) \
                    if is_prop and vk in ('dict', 'none') else ''
                if isinstance(vk, str) and vk.startswith('other:parent.') and attr == CUSTOM_PARENT:
                    extra = (": a task's own attribute whose name starts with `parent_` is shadowed - filters on it read the PARENT's "
                             "attribute (None without a parent); only `parent_id` is a pseudo attribute")
                o.refute(f, vnode, vexpr if not isinstance(vexpr, str) else attr, f"public attribute `{attr}` {why}{extra}")
                bad = True
                break
            if bad:
                return          # one finding is enough: the others have the same cause
            o.site(f, f.node, f"attribute `{attr}` -> real value")

    ctx.guarded(o, body)


# ------------------------------------------------------------------------------------------------- C18.all_filters, result
def _call_returns(ctx):
    prog = ctx.prog
    o = ctx.ob('all_filters', 'R9',
               "every return of __call__ applies the callable key (unless the path says key is None) and search(t, **kwargs) "
               "(unless the path says kwargs is empty) conjunctively", floor=1)
    o2 = ctx.ob('result', 'R9',
                "the result is _ImmutableTaskList(<comprehension over the list in list order, element = the task, the predicate as "
                "only filter>); __iter__ iterates _list; the constructor keeps its argument as _list", floor=3)

    def body(o):
        f = prog.func('task._ImmutableTaskList.__call__')
        search = prog.func('task._ImmutableTaskList.__call__.search')
        a = f.node.args
        pos = [x.arg for x in a.args]
        if len(pos) < 2 or a.kwarg is None:
            o.undecided(f, f.node, '__call__ signature', "__call__ is not (self, key, **kwargs)")
            return
        SELF, KEY, KW = pos[0], pos[1], a.kwarg.arg
        ex = Expander(prog, f, ctx.typer)
        rets = [n for n in walk_no_nested(f.node) if isinstance(n, ast.Return)]
        if not rets:
            o.refute(f, f.node, '__call__', "__call__ never returns a result")
            return
        for n in _implicit_returns(f):
            o.refute(f, n.ast if n.ast is not None else f.node, 'implicit return None',
                     "__call__ can end without `return`: the call then yields None instead of the list of matching tasks")

        # local lists filled with `.append` (sa.flow does not see in-place mutation: never expand them to their `[]`)
        accs = {n.func.value.id for n in walk_no_nested(f.node) if isinstance(n, ast.Call) and isinstance(n.func, ast.Attribute)
                and n.func.attr == 'append' and isinstance(n.func.value, ast.Name)}
        cfg = cfg_of(f)

        def loop_form(r, acc: str):
            """result accumulated by `acc = []; for t in <list>: <guards>; acc.append(t)` -> (elt, target, iter, filters, outer conds)"""
            from sa.flow import flow_of
            defs = flow_of(f).defs_of(acc)
            if len(defs) != 1 or defs[0].kind != 'assign' or not (isinstance(defs[0].value, ast.List) and not defs[0].value.elts
                                                                 or match("list()", defs[0].value)):
                o.undecided(f, r, r.value, f"the result list `{acc}` is not initialised once with an empty list")
                return None
            uses = [n for n in walk_no_nested(f.node) if isinstance(n, ast.Attribute) and isinstance(n.value, ast.Name)
                    and n.value.id == acc]
            apps = [n for n in walk_no_nested(f.node) if isinstance(n, ast.Call) and n.func in uses and n.func.attr == 'append']
            if len(apps) != 1 or len(uses) != 1 or len(apps[0].args) != 1 or not isinstance(apps[0].args[0], ast.Name):
                o.undecided(f, r, r.value, f"the result list `{acc}` is not filled by exactly one `{acc}.append(<task>)`")
                return None
            ap = apps[0]
            fo = _enclosing_for(f, ap, ap.args[0].id)
            if fo is None:
                o.undecided(f, ap, ap, f"`{src(ap)}` is not inside a loop that binds `{ap.args[0].id}`")
                return None
            exits = _loop_exits(fo)
            if exits:
                o2.refute(f, exits[0], exits[0], f"`{src(exits[0])}` inside the selection loop: the loop can stop before the last task of the list")
                return None
            cn = cfg.node_containing(ap)
            inside = {id(x) for st in fo.body for x in ast.walk(st)}
            filters, outer = [], []
            for t, pol in cfg.conditions(cn):
                tx = ex.expand(t, cfg.node_containing(t), stop=accs)
                if id(t) in inside:
                    filters.append(_nnf(tx, pol))
                else:
                    outer += facts.split_conj(tx, pol)
            return ap.args[0], fo.target, ex.expand(fo.iter, cfg.node_of(fo), stop=accs), filters, outer

        def empty_fast_path(r, comp) -> bool:
            """`for k, v in kwargs.items(): if k.endswith('<S>') and <v is empty>: return _ImmutableTaskList([])` - an empty result
            decided from one filter alone.  Sound only if, for EVERY suffix of the table whose keys take that branch, an empty filter
            value means that no task can pass (only `_in_`).  True when a verdict was given."""
            if not (isinstance(comp, (ast.List, ast.Tuple)) and not comp.elts):
                return False
            loop = None
            for n in walk_no_nested(f.node):
                if isinstance(n, ast.For) and any(x is r for st in n.body for x in ast.walk(st)) and \
                        match(f"{KW}.items()", n.iter) and isinstance(n.target, ast.Tuple) and len(n.target.elts) == 2 and \
                        all(isinstance(x, ast.Name) for x in n.target.elts):
                    loop = n
            if loop is None:
                return False
            kv, vv = loop.target.elts[0].id, loop.target.elts[1].id
            ends, empty, other = [], False, []
            in_loop = {id(x) for st in loop.body for x in ast.walk(st) if isinstance(x, (ast.expr, ast.stmt))}
            for t, pol in facts.node_conditions(prog, f, r, ctx.typer, expand=False):
                if not any(id(x) in in_loop for x in ast.walk(t) if isinstance(x, ast.expr)):
                    continue             # established before the loop (argument checks)
                m = match(f"{kv}.endswith($s)", t)
                if m and isinstance(m['s'], ast.Constant) and isinstance(m['s'].value, str):
                    ends.append((m['s'].value, pol))
                elif (pol and (match(f"len({vv}) == 0", t) or match(f"not {vv}", t) or match(f"not len({vv})", t))) or \
                        (not pol and (match(vv, t) or match(f"len({vv})", t) or match(f"len({vv}) > 0", t))):
                    empty = True
                elif names_in(t) - {vv, 'hasattr', 'isinstance', 'len', 'list', 'tuple', 'set', 'frozenset', 'type'}:
                    other.append((t, pol))
            if not ends or not empty or other:
                return False
            taken = [A for A in SPEC if A and all(A.endswith(sfx) == pol for sfx, pol in ends)]
            wrong = [A for A in taken if SPEC[A] != ('member', 'in')]
            if wrong:
                o.refute(f, r, r, f"an empty result is returned as soon as a filter ending with `{ends[0][0]}` has an empty value, but keys "
                                  f"ending with `{wrong[0]}` take this branch too: " +
                         ("an empty exclusion list excludes nothing - every task matches, not none"
                          if wrong[0] == '_not_in_' else f"for `{wrong[0]}` an empty value does not mean that no task matches"))
            elif taken:
                o.site(f, r, f"empty result for an empty `{taken[0]}` value")
            else:
                return False
            return True

        def implies(conds, forms):
            for t, pol in conds:
                for pat, want in forms:
                    if match(pat, t) and pol == want:
                        return True
            return False

        # ---------- the filters must reach `search` as the caller gave them: `kwargs[k] = frozenset(v)`, `kwargs.update(..)`,
        #            `del kwargs[k]`, `kwargs = {..}` in __call__ change what `search(t, **kwargs)` tests
        def hashing(e) -> bool:
            return isinstance(e, (ast.SetComp, ast.Set)) or (isinstance(e, ast.Call) and isinstance(e.func, ast.Name)
                                                             and e.func.id in ('set', 'frozenset'))
        rewrites = []
        for n in walk_no_nested(f.node):
            tg = []
            if isinstance(n, ast.Assign):
                tg, val = n.targets, n.value
            elif isinstance(n, (ast.AugAssign, ast.AnnAssign)) and n.value is not None:
                tg, val = [n.target], n.value
            elif isinstance(n, ast.Delete):
                tg, val = n.targets, None
            for t in tg:
                if isinstance(t, ast.Subscript) and isinstance(t.value, ast.Name) and t.value.id == KW:
                    rewrites.append((n, val))
                elif isinstance(t, ast.Name) and t.id == KW:
                    rewrites.append((n, val.value if isinstance(val, ast.DictComp) else val))
            if isinstance(n, ast.Call) and isinstance(n.func, ast.Attribute) and isinstance(n.func.value, ast.Name) \
                    and n.func.value.id == KW and n.func.attr in ('update', 'pop', 'popitem', 'setdefault', 'clear', '__setitem__',
                                                                  '__delitem__'):
                rewrites.append((n, n.args[-1] if n.func.attr in ('__setitem__', 'setdefault') and len(n.args) == 2 else None))
        for n, val in rewrites:
            vals = [val.body, val.orelse] if isinstance(val, ast.IfExp) else [val]
            if any(v is not None and hashing(v) for v in vals):
                hv = next(v for v in vals if v is not None and hashing(v))
                o.refute(f, n, n, f"`{src(n)}` replaces a filter value by a set (`{src(hv)}`) before the filters are applied: membership is "
                                  f"then decided by hashing, so a task whose attribute value is unhashable (a list, dict or set) makes the "
                                  f"query raise TypeError instead of simply not being a member (`_in_`) / being kept (`_not_in_`); the "
                                  f"filter values must reach the suffix dispatch as the caller gave them")
            else:
                o.undecided(f, n, n, f"`{src(n)}` changes the keyword filters in __call__ before they are applied: whether every "
                                     f"filter still means what the caller wrote is not followed")

        for r in rets:
            if r.value is None:
                o.refute(f, r, r, "__call__ returns None instead of the list of matching tasks")
                continue
            conds = facts.node_conditions(prog, f, r, ctx.typer)
            key_none = implies(conds, [(f"{KEY} is None", True), (f"{KEY} is not None", False), (f"not {KEY}", True), (KEY, False)])
            key_set = implies(conds, [(f"{KEY} is not None", True), (f"{KEY} is None", False), (f"callable({KEY})", True), (KEY, True)])
            kw_empty = implies(conds, [(f"not {KW}", True), (KW, False), (f"{KW} is None", True), (f"len({KW}) == 0", True),
                                       (f"len({KW}) > 0", False)])
            v = ex.expand(r.value, stop=accs)
            m = match("_ImmutableTaskList($c)", v)
            live = None
            if match(SELF, v) or match(f"{SELF}._list", v):
                live = f"`return {src(v)}` hands out the receiver's live list"
            elif m and (match(SELF, m['c']) or match(f"{SELF}._list", m['c'])):
                live = f"`{src(v)}` wraps the receiver's live list without copying it"
            if live:
                o2.refute(f, r, r.value, f"{live} instead of a new list of the matching tasks: the result changes when the list changes "
                                         f"later, and remove_all iterates the very list that `remove` rewrites (every other match is "
                                         f"skipped)")
                continue
            comp = m['c'] if m else None
            while comp is not None and isinstance(comp, ast.Call) and isinstance(comp.func, ast.Name) and comp.func.id == 'list' \
                    and len(comp.args) == 1:
                comp = comp.args[0]
            parts = facts.comp_parts(comp) if comp is not None else None
            if isinstance(comp, ast.Name) and comp.id in accs:
                lf = loop_form(r, comp.id)
                if lf is None:
                    continue
                parts = lf[:4]
                conds = conds + lf[4]
                key_none = key_none or implies(lf[4], [(f"{KEY} is None", True), (f"{KEY} is not None", False)])
                key_set = key_set or implies(lf[4], [(f"{KEY} is not None", True), (f"{KEY} is None", False), (f"callable({KEY})", True)])
                kw_empty = kw_empty or implies(lf[4], [(f"not {KW}", True), (KW, False)])
            if comp is not None and not parts and _whole(m['c'], lambda e: bool(match(SELF, e) or match(f"{SELF}._list", e)), True) == 'whole':
                # a copy of the whole list: same as a comprehension without filters
                nm = ast.Name(id='_t', ctx=ast.Load())
                parts = (nm, nm, m['c'], [])
            if (not parts or not isinstance(parts[1], ast.Name)) and empty_fast_path(r, comp):
                continue
            if not parts or not isinstance(parts[1], ast.Name):
                o.undecided(f, r, r.value, "the result is not `_ImmutableTaskList(<single comprehension>)`")
                continue
            elt, tgt, it, ifs = parts
            Tn = tgt.id
            # ---------- result shape
            def is_list(e):
                return bool(match(SELF, e) or match(f"{SELF}._list", e))

            def stages(e, depth=0):
                """the iterable as (source, filters on Tn): a pure filtering stage `(u for u in X if C)` (also behind iter() /
                list()) is X with C[u := Tn]; `A if c else B` over the SAME whole list on both sides is that list with the filter
                `(filters of A) if c else (filters of B)` (a stage chosen once, e.g. the key predicate only when a key is given).
                None when e is no such stage - it is then judged as written."""
                if depth > 4:
                    return None
                if isinstance(e, ast.Call) and isinstance(e.func, ast.Name) and e.func.id in ('iter', 'list', 'tuple') \
                        and len(e.args) == 1 and not e.keywords:
                    return stages(e.args[0], depth + 1)
                if isinstance(e, (ast.GeneratorExp, ast.ListComp)) and len(e.generators) == 1:
                    g = e.generators[0]
                    if isinstance(g.target, ast.Name) and isinstance(e.elt, ast.Name) and e.elt.id == g.target.id \
                            and not getattr(g, 'is_async', 0):
                        inner = stages(g.iter, depth + 1) or (g.iter, [])
                        ren = {g.target.id: ast.Name(id=Tn, ctx=ast.Load())}
                        return inner[0], inner[1] + [subst(c, ren) if g.target.id != Tn else c for c in g.ifs]
                    return None
                if isinstance(e, ast.IfExp):
                    a_, b_ = stages(e.body, depth + 1) or (e.body, []), stages(e.orelse, depth + 1) or (e.orelse, [])
                    if not a_[1] and not b_[1]:
                        return None
                    if _whole(a_[0], is_list, True) == 'whole' and _whole(b_[0], is_list, True) == 'whole':
                        def conj(cs):
                            return ast.Constant(value=True) if not cs else cs[0] if len(cs) == 1 else \
                                ast.BoolOp(op=ast.And(), values=list(cs))
                        return a_[0], [ast.IfExp(test=e.test, body=conj(a_[1]), orelse=conj(b_[1]))]
                    return None
                return None
            st_ = stages(it)
            if st_ is not None and st_[1]:
                it, ifs = st_[0], [ast.fix_missing_locations(copy.deepcopy(c)) for c in st_[1]] + list(ifs)
            w = _whole(it, is_list, order_matters=True)
            if w is None:
                o2.undecided(f, r, it, f"the comprehension iterates `{src(it)}`, not the list itself")
            elif w != 'whole':
                o2.refute(f, r, it, f"the result is not built from every task of the list in list order: {w[1]}")
            elif not (isinstance(elt, ast.Name) and elt.id == Tn):
                o2.refute(f, r, elt, f"the result holds `{src(elt)}` instead of the matching tasks themselves")
            else:
                o2.site(f, r, f"[{Tn} for {Tn} in {src(it)} if ..]")
            # ---------- filters
            atoms = []
            for c in ifs:
                atoms += _filter_atoms(_inline_predicates(prog, f, c, keep=(search.name,),
                                                          expand=lambda n, _r=r: ex.expand(n, cfg.node_of(_r), stop=accs)))
            uses_key = uses_kw = False
            problem = False
            guarded_here = False
            for at, pol in atoms:
                k = _key_filter(at, pol, KEY, Tn, key_set or guarded_here)
                if (match(f"{KEY} is not None", at) and pol) or (match(f"{KEY} is None", at) and not pol):
                    guarded_here = True          # an earlier conjunct already established that a key is given
                s = _kw_filter(ctx, f, search, at, pol, KW, Tn)
                if k == 'ok':
                    uses_key = True
                elif s == 'ok':
                    uses_kw = True
                elif isinstance(k, tuple) or isinstance(s, tuple):
                    msg = (k if isinstance(k, tuple) else s)[1]
                    o.refute(f, r, at, msg)
                    problem = True
                else:
                    o2.undecided(f, r, at, f"extra filter `{src(at)}` in the result comprehension: the result must hold exactly the tasks "
                                           f"satisfying the key and the keyword filters")
                    problem = True
            if problem:
                continue
            if not uses_kw and not kw_empty:
                o.refute(f, r, r.value, "this return ignores the keyword filters: `search(t, **kwargs)` is not applied" +
                         (" when a callable key is given" if key_set else "") + "; every filter must hold for a returned task")
                continue
            if not uses_key and not key_none:
                o.refute(f, r, r.value, "this return ignores the callable `key`: it is not applied as a predicate although it may be given")
                continue
            o.site(f, r, "key" + (" (None on this path)" if not uses_key else "") + " and search(**kwargs)" +
                   (" (empty on this path)" if not uses_kw else ""))

        # ---------- __iter__ and the constructor
        itf = prog.func('task._ImmutableTaskList.__iter__')
        irets = [n for n in walk_no_nested(itf.node) if isinstance(n, (ast.Return, ast.Yield, ast.YieldFrom))]
        exi = Expander(prog, itf, ctx.typer)
        s_it = itf.params[0]
        if len(irets) == 1 and isinstance(irets[0], ast.Return) and irets[0].value is not None:
            iv = exi.expand(irets[0].value)
            w = _whole(iv, lambda e: bool(match(f"{s_it}._list", e)), order_matters=True)
            if w == 'whole':
                o2.site(itf, irets[0], src(iv))
            elif w is None:
                o2.undecided(itf, irets[0], irets[0], "__iter__ does not return an iterator over `_list`")
            else:
                o2.refute(itf, irets[0], irets[0], f"iterating a task list does not visit every task in list order: {w[1]}")
        else:
            o2.undecided(itf, itf.node, '__iter__', "__iter__ is not a single `return iter(self._list)`")
        init = prog.func('task._ImmutableTaskList.__init__')
        stores = facts.attr_stores(init, '_list')
        if len(init.params) == 2 and len(stores) == 1 and isinstance(stores[0][2], ast.Name) and stores[0][2].id == init.params[1] \
                and not facts.node_conditions(prog, init, stores[0][0], ctx.typer, expand=False):
            o2.site(init, stores[0][0], src(stores[0][0]))
        elif not stores:
            o2.refute(init, init.node, '__init__', "the task list constructor does not keep the list it is given")
        else:
            o2.undecided(init, stores[0][0], stores[0][0], "the task list constructor does not simply store its argument as `_list`")

    def both(o):
        try:
            body(o)
        except _Undecided as u:
            o.undecided(None, u.node, u.node, u.msg)
    ctx.guarded(o, both)
    if o2.error is None and o.error is not None:
        o2.fail(o.error)


def _key_filter(at, pol, KEY, Tn, key_set):
    """'ok' | ('bad', msg) | None (not about the key)"""
    if KEY not in names_in(at):
        return None
    call = f"{KEY}({Tn})"
    good = [f"{KEY} is None or {call}", f"not {KEY} or {call}", f"{call} if {KEY} is not None else True",
            f"True if {KEY} is None else {call}", f"{call} if {KEY} else True", f"{call} if callable({KEY}) else True",
            f"{KEY} is None or bool({call})"]
    if pol and any(match(g, at) for g in good):
        return 'ok'
    if match(call, at):
        if not pol:
            return ('bad', f"the callable key is applied negated (`not {call}`): tasks rejected by the predicate are returned")
        if key_set:
            return 'ok'
        return ('bad', f"`{call}` is evaluated although key may be None (no `key is None or ..` guard)")
    if (match(f"{KEY} is not None", at) and pol) or (match(f"{KEY} is None", at) and not pol):
        return ('bad', f"the filter `{KEY} is not None` rejects every task when no callable key is given; without a key the keyword "
                       f"filters alone decide")
    if pol and (match(f"{KEY} is not None or {call}", at) or match(f"True if {KEY} is not None else {call}", at)
                or match(f"{call} if {KEY} is None else True", at)):
        return ('bad', f"`{src(at)}`: a given key is never applied (every task passes) and a missing key is called")
    inverted = [f"{KEY} is None or not {call}", f"{KEY} is not None and not {call}"]
    if any(match(g, at) for g in inverted) or (not pol and any(match(g, at) for g in good)):
        return ('bad', f"the callable key is applied with inverted polarity (`{src(at)}`)")
    if isinstance(at, ast.BoolOp) and isinstance(at.op, ast.Or) and pol and any(
            isinstance(n, ast.Call) and isinstance(n.func, ast.Name) and n.func.id == 'search' for v in at.values for n in ast.walk(v)):
        return ('bad', f"key and keyword filters are combined with `or` (`{src(at)}`): a task satisfying only one of them is returned; "
                       f"every filter must hold")
    return None


def _kw_filter(ctx, f, search, at, pol, KW, Tn):
    calls = [n for n in ast.walk(at) if isinstance(n, ast.Call) and isinstance(n.func, ast.Name) and n.func.id == search.name]
    if not calls:
        return None
    c = calls[0]
    star = [k for k in c.keywords if k.arg is None]
    if not (len(c.args) == 1 and isinstance(c.args[0], ast.Name) and c.args[0].id == Tn):
        return ('bad', f"`{src(c)}` does not evaluate the filters on the task being selected")
    sa_ = search.node.args
    closes = sa_.kwarg is None and len(sa_.args) == 1 and KW in names_in(search.node) and not any(
        isinstance(n, ast.Name) and n.id == KW and isinstance(n.ctx, ast.Store) for n in ast.walk(f.node))
    if closes and not c.keywords:
        pass                         # search(t) reads the enclosing **kwargs itself (never reassigned)
    elif len(star) != 1 or len(c.keywords) != 1 or not (isinstance(star[0].value, ast.Name) and star[0].value.id == KW):
        return ('bad', f"`{src(c)}` does not receive the keyword filters `**{KW}` unchanged")
    if at is c or match(f"bool({src(c)})", at) or match(f"not {KW} or {src(c)}", at) or match(f"{src(c)} is True", at):
        if pol:
            return 'ok'
        return ('bad', f"the keyword filters are applied negated (`not {src(c)}`)")
    def empty_kw(e) -> Optional[bool]:
        """e says `no keyword filters were given` -> True, `some were given` -> False, anything else -> None"""
        for pat, val in ((f"not {KW}", True), (f"len({KW}) == 0", True), (f"0 == len({KW})", True), (f"not len({KW})", True),
                         (f"{KW} == {{}}", True), (f"len({KW}) < 1", True), (KW, False), (f"len({KW}) > 0", False), (f"len({KW})", False),
                         (f"len({KW}) != 0", False), (f"bool({KW})", False), (f"len({KW}) >= 1", False)):
            if match(pat, e):
                return val
        return None

    def is_call(e):
        return e is c or bool(match(f"bool({src(c)})", e))

    if isinstance(at, ast.BoolOp) and isinstance(at.op, ast.Or):
        others = [v for v in at.values if not is_call(v)]
        if len(others) == len(at.values) - 1 and all(empty_kw(v) is True for v in others):
            # `<no filters given> or search(t, **kwargs)`: search of an empty dict is True anyway
            return 'ok' if pol else ('bad', f"the keyword filters are applied negated (`not ({src(at)})`)")
        if any(Tn in names_in(v) or empty_kw(v) is False for v in others):
            return ('bad', f"the keyword filters are or-ed with another condition (`{src(at)}`): a task that fails them can still be "
                           f"returned; every filter must hold")
        return None
    if isinstance(at, ast.IfExp) and pol and ((is_call(at.body) and empty_kw(at.test) is False and _is_const(at.orelse, True)) or
                                              (is_call(at.orelse) and empty_kw(at.test) is True and _is_const(at.body, True))):
        return 'ok'              # search(..) if kwargs else True
    if isinstance(at, ast.IfExp):
        in_body = any(x is c for x in ast.walk(at.body))
        in_else = any(x is c for x in ast.walk(at.orelse))
        if in_body != in_else and not any(x is c for x in ast.walk(at.test)):
            return ('bad', f"the keyword filters are applied only on one side of `{src(at)}`: on the other side they are ignored; "
                           f"every filter must hold")
    return None


# ------------------------------------------------------------------------------------------------- C18.readonly
def _readonly(ctx):
    prog = ctx.prog
    o = ctx.ob('readonly', 'R9',
               "a query writes nothing: __call__, search, the attribute resolver, order_by (with its key lambdas) and every Task "
               "property getter the resolver can reach through getattr have an empty write set (fresh objects excepted)", floor=19)

    def body(o):
        eff = Effects(prog, ctx.typer, ctx.cg)
        quals = ['task._ImmutableTaskList.__call__', 'task._ImmutableTaskList.__call__.search',
                 'task._ImmutableTaskList.order_by', 'task._ImmutableTaskList.__iter__']
        funcs = [prog.func(q) for q in quals]
        funcs.insert(2, _find_resolver(prog, funcs[1]))
        # the key functions of order_by: its own lambdas / nested functions, or those of a key-function builder it calls
        # (private helpers that are not in the baseline; baseline functions are covered by writes_star of order_by itself)
        order_by = funcs[3]
        builders = [order_by]
        for ci in ctx.cg.calls_in(order_by):
            for t in ci.targets:
                if t is not None and t not in builders and t not in funcs and t.name.startswith('_') and \
                        not (t.name.startswith('__') and t.name.endswith('__')) and \
                        any(g.parent is not None and g.parent.qual == t.qual for g in prog.all_funcs()):
                    builders.append(t)
        funcs += builders[1:]
        seen = {g.qual for g in funcs}
        todo = list(builders)
        while todo:
            b = todo.pop(0)
            for g in prog.all_funcs():
                if g.parent is not None and g.parent.qual == b.qual and g.qual not in seen:
                    seen.add(g.qual)
                    funcs.append(g)
                    todo.append(g)
        # nested defs the index does not hold (two `def sort_key` in the branches of order_by share one qualified name): analysed
        # through a stand-in - their own stores plus the writes of everything they call
        from sa.model import Func
        shadowed = {}
        indexed = {id(g.node) for g in funcs}
        for b in builders:
            for n in ast.walk(b.node):
                if isinstance(n, ast.FunctionDef) and n is not b.node and id(n) not in indexed and \
                        (prog.func_of_node(n) is None or prog.funcs.get(prog.func_of_node(n).qual) is None or
                         prog.funcs[prog.func_of_node(n).qual].node is not n):
                    k = sum(1 for x in shadowed.values() if x.name == n.name) + 2
                    g = Func(qual=f"{b.qual}.{n.name}#{k}", name=n.name, node=n, module=b.module, cls=b.cls, kind='nested', parent=b)
                    shadowed[g.qual] = g
                    funcs.append(g)
        funcs += [g for n, g in sorted(prog.cls('Task').getters.items()) if not n.startswith('_')]
        for fn in funcs:
            a = getattr(fn.node, 'args', None)
            own_kw = a.kwarg.arg if a is not None and a.kwarg is not None else None
            bad = []
            if fn.qual in shadowed:
                ws = {w.key() for w in eff.direct_writes(fn)}
                for ci in ctx.cg.calls_in(fn):
                    ws |= eff.call_writes(fn, ci)
            else:
                ws = eff.writes_star(fn)
            for (fld, root) in sorted(ws):
                if root == 'fresh' or (own_kw and root == 'param:' + own_kw):
                    continue
                bad.append((fld, root))
            if not bad:
                o.site(fn, fn.node, "writes nothing")
                continue
            for fld, root in bad:
                chain = eff.explain(fn, (fld, root))
                o.refute(fn, fn.node, f"write {unmangle(fld)}@{root}",
                         f"{fn.qual} writes `{unmangle(fld)}` of {root}: a query must not change anything" +
                         (" (" + ' -> '.join(chain[:4]) + ")" if chain else ''))

    ctx.guarded(o, body)


# ------------------------------------------------------------------------------------------------- C18.bulk_assign
def _bulk_assign(ctx):
    prog = ctx.prog
    o = ctx.ob('bulk_assign', 'R4',
               "assigning a public attribute on a task list sets (key, value) on every element of _list: no filter, no condition, "
               "no early loop exit", floor=1)

    def body(o):
        f = prog.func('task._ImmutableTaskList.__setattr__')
        if len(f.params) != 3:
            o.undecided(f, f.node, '__setattr__ signature', "unexpected signature")
            return
        SELF, KEY, VALUE = f.params
        cfg = cfg_of(f)
        ex = Expander(prog, f, ctx.typer)
        sites = []
        for n in walk_no_nested(f.node):
            if not isinstance(n, ast.Call):
                continue
            if isinstance(n.func, ast.Attribute) and n.func.attr == '__setattr__' and len(n.args) == 2:
                if isinstance(n.func.value, ast.Call) and getattr(n.func.value.func, 'id', '') == 'super':
                    continue
                if match(f"object.__setattr__({SELF}, $k, $v)", n):
                    continue
                sites.append((n, n.func.value, n.args[0], n.args[1]))
            elif isinstance(n.func, ast.Name) and n.func.id == 'setattr' and len(n.args) == 3:
                if isinstance(n.args[0], ast.Name) and n.args[0].id == SELF:
                    continue
                sites.append((n, n.args[0], n.args[1], n.args[2]))
        stores = [s for s in facts.attr_stores(f) if not (isinstance(s[1].value, ast.Name) and s[1].value.id == SELF)]
        if not sites:
            if stores:
                o.refute(f, stores[0][0], stores[0][0], f"the assignment stores a fixed attribute (`{src(stores[0][0])}`) instead of setting "
                                                        f"`{KEY}` on every task")
            else:
                o.refute(f, f.node, '__setattr__', "no element of the list is assigned: `t.__setattr__(key, value)` for every t in _list "
                                                   "is missing")
            return
        for c, recv, karg, varg in sites:
            cn = cfg.node_containing(c)
            if cn is None:
                o.undecided(f, c, c, "assignment inside an expression the CFG does not model (comprehension?)")
                continue
            k2, v2 = ex.expand(karg, cn), ex.expand(varg, cn)
            if not (isinstance(k2, ast.Name) and k2.id == KEY):
                o.refute(f, c, c, f"the attribute set on the tasks is `{src(k2)}`, not the assigned attribute `{KEY}`")
                continue
            if not (isinstance(v2, ast.Name) and v2.id == VALUE):
                o.refute(f, c, c, f"the value set on the tasks is `{src(v2)}`, not the assigned value `{VALUE}`")
                continue
            fo = _enclosing_for(f, c, recv.id) if isinstance(recv, ast.Name) else None
            if fo is None:
                o.refute(f, c, c, f"`{src(c)}` is not executed for each element of the list (no enclosing loop binds `{src(recv)}`)")
                continue
            it = ex.expand(fo.iter, cfg.node_of(fo))
            w = _whole(it, lambda e: bool(match(f"{SELF}._list", e) or match(SELF, e)))
            if w is None:
                o.undecided(f, fo, fo.iter, f"the loop iterates `{src(it)}`, not `_list`")
                continue
            if w != 'whole':
                o.refute(f, fo, fo.iter, f"the assignment does not reach every task of the list: {w[1]}")
                continue
            exits = _loop_exits(fo)
            if exits:
                o.refute(f, exits[0], exits[0], f"`{src(exits[0])}` inside the assignment loop: the loop can stop before the last task")
                continue
            extra = []
            for t, pol in facts.node_conditions(prog, f, c, ctx.typer):
                if match(f"{KEY}.startswith('_')", t) and not pol:
                    continue
                extra.append((t, pol))
            if extra:
                txt = ', '.join(facts.cond_texts(extra))
                if any(recv.id in names_in(t) or VALUE in names_in(t) or KEY in names_in(t) for t, _ in extra):
                    o.refute(f, c, c, f"the assignment is conditional ({txt}): some tasks of the list keep their old value")
                else:
                    o.undecided(f, c, c, f"the assignment is executed under a condition the rule does not understand ({txt})")
                continue
            o.site(f, c, f"for {recv.id} in {src(it)}: {src(c)}")

    ctx.guarded(o, body)


# ------------------------------------------------------------------------------------------------- C18.remove_all
def _remove_all(ctx):
    prog = ctx.prog
    o = ctx.ob('remove_all', 'R4',
               "remove_all (task list and WBS): the matches are self(key, **kwargs) / self.tasks(key, **kwargs); every match is "
               "removed unconditionally; every return yields the whole match list; WBS.__remove walks the whole tree", floor=9)

    walkers = []        # [function, task parameter, current-node parameter, 'single' | 'bulk', element kind, call] found in WBS.remove_all

    def callee_of(f, n: ast.Call):
        """package function a call resolves to by name: self.<method>, <Class>.<method>, module-level / imported function"""
        fn = n.func
        if isinstance(fn, ast.Attribute) and isinstance(fn.value, ast.Name):
            if f.cls and f.self_name and fn.value.id == f.self_name:
                return prog.find_method(f.cls, unmangle(fn.attr))
            if fn.value.id in prog.classes:
                return prog.find_method(fn.value.id, unmangle(fn.attr))
            return None
        if isinstance(fn, ast.Name):
            g = prog.module_func(f.module.name, fn.id)
            if g is None and fn.id in f.module.imports:
                origin = prog.resolve_import(f.module, fn.id)
                g = prog.funcs.get(origin) if origin else None
            return g
        return None

    def own_params(g):
        return g.params[1:] if g.kind in ('method', 'classmethod') else g.params

    def walker_call(f, n, SELF, ex, cfg):
        """n is `<walker>(<task or tasks>, <the hidden root>)` (either order) -> (walker, task argument, task param, root param)"""
        g = callee_of(f, n)
        if g is None or g.name == 'remove' or len(own_params(g)) != 2 or not isinstance(g.node, ast.FunctionDef):
            return None
        cargs = facts.bound_args(n, g)
        if len(cargs) != 2 or any(x is None for x in cargs):
            return None
        cn = cfg.node_containing(n)
        roots = [i for i, x in enumerate(cargs) if match(f"{SELF}._WBS__root", ex.expand(x, cn) if cn is not None else x)]
        if len(roots) != 1:
            return None
        r = roots[0]
        pp = own_params(g)
        return g, cargs[1 - r], pp[1 - r], pp[r]

    def variant(o, qual, wbs: bool):
        f = _delegated_body(prog, prog.func(qual))
        a = f.node.args
        pos = [x.arg for x in a.args]
        if len(pos) < 2 or a.kwarg is None:
            o.undecided(f, f.node, 'remove_all signature', "remove_all is not (self, key, **kwargs)")
            return
        SELF, KEY, KW = pos[0], pos[1], a.kwarg.arg
        cfg = cfg_of(f)
        ex = Expander(prog, f, ctx.typer, inline=False)
        def alias(e):
            """a local bound once to `self` / `self.tasks` (the Expander keeps such a name when mutating methods are called
            through it) -> what it stands for"""
            from sa.flow import flow_of
            for _ in range(3):
                if not (isinstance(e, ast.Name) and e.id not in f.params):
                    break
                defs = flow_of(f).defs_of(e.id)
                if len(defs) == 1 and defs[0].kind == 'assign' and isinstance(defs[0].value, (ast.Name, ast.Attribute)):
                    e = defs[0].value
                else:
                    break
            return e

        # ---- the query
        qcalls = [ci for ci in ctx.cg.calls_in(f) if ci.kind == 'call' and isinstance(ci.node, ast.Call) and
                  any(t is not None and t.qual == 'task._ImmutableTaskList.__call__' for t in ci.targets)]
        if not qcalls:
            # a query evaluated lazily, per task, inside a nested predicate that is handed to the code that removes
            lazy = []
            for g in prog.all_funcs():
                if g.parent is not None and g.parent.qual == prog.func(qual).qual:
                    lazy += [(g, ci.node) for ci in ctx.cg.calls_in(g) if ci.kind == 'call' and isinstance(ci.node, ast.Call) and
                             any(t is not None and t.qual == 'task._ImmutableTaskList.__call__' for t in ci.targets)]
            calls_out = [n for n in walk_no_nested(f.node) if isinstance(n, ast.Call) and not (
                isinstance(n.func, ast.Name) and n.func.id in ('_ImmutableTaskList', 'len', 'bool', 'list', 'tuple', 'set', 'id', 'iter'))]
            if lazy:
                g, qn = lazy[0]
                o.refute(f, qn, qn, f"the matching tasks are not selected up front: `{src(qn)[:80]}` is evaluated per task inside `{g.name}` "
                                    f"while the walk is already removing tasks, so the filters see a partially pruned tree (a predicate that "
                                    f"looks at children / parent matches tasks that did not match when remove_all was called); query first "
                                    f"(`self.tasks(key, **kwargs)`), then remove")
            elif calls_out:
                o.undecided(f, calls_out[0], 'query', f"no query `(key, **kwargs)` in {f.qual} itself; it may be done by "
                                                      f"`{src(calls_out[0])[:80]}`, which this rule does not follow")
            else:
                o.refute(f, f.node, 'query', "remove_all does not query the list with (key, **kwargs): the tasks to delete are not the matches")
            return
        tasks_site = [False]

        def check_query(q):
            """one query call, judged under its path condition -> 'ok' | 'skip' (outside the property's domain) | None (reported)"""
            conds = facts.node_conditions(prog, f, q, ctx.typer)

            def implied(forms):
                return any(match(pat, t) and pol == want for t, pol in conds for pat, want in forms)
            key_none = implied([(f"{KEY} is None", True), (f"{KEY} is not None", False), (f"not {KEY}", True), (KEY, False)])
            not_callable = implied([(f"callable({KEY})", False), (f"not callable({KEY})", True)])
            recv = q.func.value if isinstance(q.func, ast.Attribute) and q.func.attr == '__call__' else q.func
            recv = alias(ex.expand(recv, cfg.node_containing(q)) if cfg.node_containing(q) is not None else recv)
            if wbs:
                if match(f"{SELF}.tasks", recv):
                    if not tasks_site[0]:
                        g = prog.func('wbs.WBS.tasks')
                        grets = [n for n in walk_no_nested(g.node) if isinstance(n, ast.Return)]
                        gv = Expander(prog, g, ctx.typer, inline=False).expand(grets[0].value) \
                            if len(grets) == 1 and grets[0].value is not None else None
                        if gv is not None and match(f"{g.params[0]}._WBS__root.all_children", gv):
                            o.site(g, grets[0], "WBS.tasks = root.all_children")
                            tasks_site[0] = True
                        elif gv is not None and match(f"{g.params[0]}._WBS__root.children", gv):
                            o.refute(g, grets[0], grets[0], "WBS.tasks yields only the root tasks, not every task of the WBS")
                            return None
                        else:
                            o.undecided(g, g.node, 'WBS.tasks', "WBS.tasks is not `self.__root.all_children`")
                            return None
                elif match(f"{SELF}.roots", recv) or match(f"{SELF}._WBS__root.children", recv):
                    o.refute(f, q, q, f"`{src(q)}` searches only the root tasks; remove_all must search every task of the WBS (`self.tasks`)")
                    return None
                else:
                    o.undecided(f, q, q, "the WBS query is not `self.tasks(key, **kwargs)`")
                    return None
            elif not match(SELF, recv):
                o.undecided(f, q, q, "the list query is not `self(key, **kwargs)`")
                return None
            cnq = cfg.node_containing(q)
            kpos = [x for x in q.args if not isinstance(x, ast.Starred)]
            knamed = {k.arg: k.value for k in q.keywords if k.arg}
            kstar = [k.value for k in q.keywords if k.arg is None]
            karg = kpos[0] if kpos else knamed.get('key')
            extra_named = set(knamed) - {'key'}
            if extra_named == {'id'} and karg is None and not_callable and not key_none and \
                    match(KEY, ex.expand(knamed['id'], cnq) if cnq is not None else knamed['id']):
                return 'skip'          # `key` as a plain task id (neither None nor callable): outside the property's statement
            if karg is None and key_none and not kpos:
                pass                   # `self.tasks(**kwargs)` on the path where key is None
            elif karg is None or not (isinstance(ex.expand(karg), ast.Name) and ex.expand(karg).id == KEY) or len(kpos) > 1:
                o.refute(f, q, q, f"`{src(q)}` does not pass the caller's `{KEY}` to the query: tasks the predicate rejects are removed too")
                return None
            kstar = [ex.expand(x, cnq) if cnq is not None else x for x in kstar]
            if len(kstar) != 1 or not (isinstance(kstar[0], ast.Name) and kstar[0].id == KW) or extra_named:
                o.refute(f, q, q, f"`{src(q)}` does not pass the caller's keyword filters `**{KW}` to the query: tasks the filters reject are "
                                  f"removed too" + (f" (on the path where {', '.join(facts.cond_texts(conds))})" if conds and len(qcalls) > 1 else ''))
                return None
            o.site(f, q, f"matches = {src(q)}")
            return 'ok'

        if len(qcalls) > 1:
            # one query per branch (dispatch on the kind of key): every one is `<same local> = <query>`
            tgt_names = set()
            for ci in qcalls:
                cnq = cfg.node_containing(ci.node)
                st = cnq.ast if cnq is not None else None
                if isinstance(st, ast.Assign) and len(st.targets) == 1 and isinstance(st.targets[0], ast.Name) and st.value is ci.node:
                    tgt_names.add(st.targets[0].id)
                else:
                    tgt_names.add(None)
            others = [n for n in walk_no_nested(f.node) if isinstance(n, (ast.Assign, ast.AugAssign, ast.AnnAssign)) and any(
                isinstance(x, ast.Name) and x.id in tgt_names for x in (n.targets if isinstance(n, ast.Assign) else [n.target]))
                and getattr(n, 'value', None) not in [ci.node for ci in qcalls]]
            if len(tgt_names) != 1 or None in tgt_names or others:
                o.undecided(f, qcalls[1].node, qcalls[1].node, "more than one query in remove_all")
                return
            results = [check_query(ci.node) for ci in qcalls]
            if None in results or 'ok' not in results:
                return
            q = next(ci.node for ci, r in zip(qcalls, results) if r == 'ok')
            MATCH = ast.Name(id=next(iter(tgt_names)), ctx=ast.Load())
        else:
            q = qcalls[0].node
            if check_query(q) != 'ok':
                return
            MATCH = ex.expand(q)
        recv = q.func

        # what the Expander turns the match list into where it is used (a two-way dispatch is joined into `A if c else B`)
        MATCHES = [MATCH]
        if isinstance(MATCH, ast.Name):
            for n in walk_no_nested(f.node):
                if isinstance(n, ast.Name) and n.id == MATCH.id and isinstance(n.ctx, ast.Load) and cfg.node_containing(n) is not None:
                    alt = ex.expand(n, cfg.node_containing(n))
                    if not any(same(alt, m) for m in MATCHES):
                        MATCHES.append(alt)

        def is_match(e):
            return any(same(e, m) for m in MATCHES)

        def only_about_match(t):
            """condition mentions nothing but the match list (emptiness tests)"""
            class R(ast.NodeTransformer):
                def visit(self, n):
                    if is_match(n):
                        return ast.Constant(value=0)
                    return super().visit(n)
            left = R().visit(copy.deepcopy(t))
            return not (names_in(left) - {'len', 'bool'})

        def bulk_argument(a0, c):
            """argument holding all matches: {id(t) for t in M} / [t for t in M] / set(M) / M -> ('ok', 'id'|'obj') | ('bad', msg)"""
            v = ex.expand(a0, cfg.node_containing(c))
            while isinstance(v, ast.Call) and isinstance(v.func, ast.Name) and v.func.id in ('set', 'frozenset', 'list', 'tuple') \
                    and len(v.args) == 1 and not v.keywords and isinstance(v.args[0], (ast.GeneratorExp, ast.ListComp, ast.SetComp)):
                v = v.args[0]
            if isinstance(v, (ast.GeneratorExp, ast.ListComp, ast.SetComp)) and len(v.generators) == 1 \
                    and isinstance(v.generators[0].target, ast.Name):
                gen = v.generators[0]
                tn = gen.target.id
                if match(f"id({tn})", v.elt):
                    kind = 'id'
                elif match(tn, v.elt):
                    kind = 'obj'
                else:
                    return None
                w = _whole(gen.iter, is_match)
                if w is None:
                    return None
                if w != 'whole' and w[0] == 'filtered':
                    return ('bad', f"not every match is removed: {w[1]}")
                if gen.ifs:
                    return ('bad', "not every match is removed: comprehension filter `" + ' and '.join(src(x) for x in gen.ifs) + "`")
                return ('ok', kind)
            w = _whole(v, is_match)
            if w == 'whole':
                return ('ok', 'obj')
            if isinstance(w, tuple) and w[0] == 'filtered':
                return ('bad', f"not every match is removed: {w[1]}")
            return None

        def public_remove_total(c) -> bool:
            """WBS.remove_all removes through the public `WBS.remove`: that one must not raise for a match that is no longer in
            the tree (it left together with a matching ancestor removed earlier in the same loop) - only argument-type guards
            (`not isinstance(task, Task)`, `task is None`) may raise"""
            r = prog.func('wbs.WBS.remove')
            tp = r.params[1] if len(r.params) > 1 else None
            for gd in facts.guards_of(prog, r, ctx.typer):
                gd.conds = [facts.norm_cond(t, pol) for t0, p0 in gd.conds for t, pol in facts.split_conj(t0, p0)]
                type_guard = any((match(f"isinstance({tp}, $c)", t) and not pol) or (match(f"{tp} is None", t) and pol) or
                                 (match(f"{tp} is not None", t) and not pol) for t, pol in gd.conds)
                if type_guard:
                    continue
                state = [(t, pol) for t, pol in gd.conds if any(isinstance(n, ast.Attribute) and isinstance(n.value, ast.Name)
                                                               and n.value.id == tp for n in ast.walk(t))
                         or (isinstance(t, ast.Compare) and any(isinstance(op, (ast.In, ast.NotIn)) for op in t.ops) and tp in names_in(t))]
                if state:
                    o.refute(f, c, gd.node, f"remove_all removes through the public `{src(c)}`, and WBS.remove raises when "
                                            f"{', '.join(facts.cond_texts(state))}: a match that already left the WBS together with a "
                                            f"matching ancestor removed earlier in the loop makes remove_all raise midway - the matches "
                                            f"after it stay in the WBS and nothing is returned")
                else:
                    o.undecided(f, c, gd.node, f"WBS.remove can raise under a condition this rule does not understand (" +
                                ', '.join(facts.cond_texts(gd.conds)) + "): remove_all calls it once per match")
                return False
            return True

        # ---- the removals
        # list variant: self.remove(t).  WBS variant: self.remove(t), or a tree walker - any package function / method of the
        # class with two parameters that is called with the hidden root and (a) one match or (b) the collection of all matches
        rem = []            # (call, task argument)
        for n in walk_no_nested(f.node):
            if not isinstance(n, ast.Call):
                continue
            if isinstance(n.func, ast.Attribute) and isinstance(n.func.value, ast.Name) and match(SELF, alias(n.func.value)) \
                    and n.func.attr == 'remove':
                a0 = (list(n.args) + [k.value for k in n.keywords if k.arg == 'task'] + [None])[0]
                rem.append((n, a0))
                continue
            if wbs and n is not q:
                wk = walker_call(f, n, SELF, ex, cfg)
                if wk is not None:
                    g, t_arg, t_par, c_par = wk
                    rem.append((n, t_arg))
                    walkers.append([g, t_par, c_par, 'single', None, n])
        if not rem:
            others = [n for n in walk_no_nested(f.node) if isinstance(n, ast.Call) and n is not q and not (
                isinstance(n.func, ast.Name) and n.func.id in ('_ImmutableTaskList', 'len', 'bool', 'list', 'tuple', 'set', 'id', 'iter'))
                and not (isinstance(n.func, ast.Attribute) and isinstance(n.func.value, ast.Name) and 'log' in n.func.value.id.lower())
                and n is not recv]
            writes = [st for st, _, _ in facts.attr_stores(f)] + [n for n in walk_no_nested(f.node) if isinstance(n, ast.Delete)]
            if writes:
                # another design (e.g. one `holder.children = [..]` assignment per parent): not a missing removal
                o.undecided(f, writes[0], 'removal', f"no `remove` call per match in {f.qual}; the removal seems to be done by "
                                                     f"`{src(writes[0])[:80]}`, a design this rule does not model")
            elif others:
                o.undecided(f, others[0], 'removal', f"no `remove` call per match in {f.qual}; the removal may be done by `{src(others[0])[:80]}`, "
                                                     f"which this rule does not follow")
            else:
                o.refute(f, f.node, 'removal', "no matching task is removed: the call of `remove` for every match is missing")
            return
        for c, a0 in rem:
            if not isinstance(a0, ast.Name):
                # (b) one call for all matches: the argument must hold every match
                wk = [w for w in walkers if w[5] is c]
                kind = bulk_argument(a0, c) if wk and a0 is not None else None
                if kind is None:
                    if wk:
                        wk[0][3] = 'skip'
                    o.undecided(f, c, c, "removal call without a plain task variable")
                    continue
                wk[0][3] = 'bulk'
                if kind[0] == 'bad':
                    wk[0][3] = 'skip'         # one finding is enough: the walker is not judged against a wrong argument
                    o.refute(f, c, a0, kind[1])
                    continue
                extra = [(t, p) for t, p in facts.node_conditions(prog, f, c, ctx.typer) if not only_about_match(t)]
                if extra:
                    o.undecided(f, c, c, "the removal is executed under a condition the rule does not understand (" +
                                ', '.join(facts.cond_texts(extra)) + ")")
                    continue
                wk[0][3], wk[0][4] = 'bulk', kind[1]
                o.site(f, c, f"{src(c)}: all matches handed to the tree walk at once")
                continue
            var = a0.id
            cn = cfg.node_containing(c)
            binder_iter = None
            comp = _enclosing_comp(f, c, var)
            if comp is not None:
                g = next(g for g in comp.generators if isinstance(g.target, ast.Name) and g.target.id == var)
                binder_iter = ex.expand(g.iter, cn)
                in_first_filter = any(x is c for x in ast.walk(comp.elt)) or (g.ifs and any(x is c for x in ast.walk(g.ifs[0])))
                conds = (facts.eval_conditions(comp, c) or []) if not in_first_filter else \
                    [tp for tp in (facts.eval_conditions(comp, c) or []) if not any(tp[0] is i for i in g.ifs[1:])]
                conds = [(t, p) for t, p in conds]
                loop_node = comp
                exits = []
            elif cn is not None:
                fo = _enclosing_for(f, c, var)
                if fo is None:
                    o.refute(f, c, c, f"`{src(c)}` is not executed for each match (no loop over the matches binds `{var}`)")
                    continue
                binder_iter = ex.expand(fo.iter, cfg.node_of(fo))
                conds = []
                loop_node = fo
                exits = _loop_exits(fo)
            else:
                o.undecided(f, c, c, "removal call in a construct the rule does not model")
                continue
            w = _whole(binder_iter, is_match)
            if w is None:
                o.undecided(f, loop_node, binder_iter, f"the removal loop iterates `{src(binder_iter)}`, not the match list")
                continue
            if w != 'whole':
                o.refute(f, loop_node, binder_iter, f"not every match is removed: {w[1]}")
                continue
            if exits:
                o.refute(f, exits[0], exits[0], f"`{src(exits[0])}` inside the removal loop: the loop can stop before the last match")
                continue
            conds = conds + (facts.node_conditions(prog, f, c, ctx.typer, expand=False) if cn is not None else [])
            conds_x = []
            for t, pol in conds:
                tx = ex.expand(t, cfg.node_containing(t) or cn) if cfg.node_containing(t) is not None else t
                for a2, p2 in facts.split_conj(tx, pol):
                    conds_x.append((a2, p2))
            extra = [(t, p) for t, p in conds_x if not only_about_match(t)]
            if extra:
                txt = ', '.join(facts.cond_texts(extra))
                if any(var in names_in(t) for t, _ in extra):
                    o.refute(f, c, c, f"the removal is conditional ({txt}): some matching tasks stay in the list")
                else:
                    o.undecided(f, c, c, f"the removal is executed under a condition the rule does not understand ({txt})")
                continue
            if wbs and isinstance(c.func, ast.Attribute) and c.func.attr == 'remove' and not public_remove_total(c):
                continue
            o.site(f, c, f"for {var} in matches: {src(c)}")
        # ---- the returns
        rets = [n for n in walk_no_nested(f.node) if isinstance(n, ast.Return)]
        if not rets:
            o.refute(f, f.node, 'return', "remove_all returns nothing; it must return the removed (= matching) tasks")
        for n in (_implicit_returns(f) if rets else []):
            o.refute(f, n.ast if getattr(n.ast, 'lineno', None) else f.node, 'implicit return None',
                     "remove_all can end without `return` (after the removals): it must return the removed (= matching) tasks")
        good_returns = []
        for r in rets:
            if r.value is None:
                o.refute(f, r, r, "remove_all returns None on this path; it must return the removed (= matching) tasks")
                continue
            v = ex.expand(r.value)
            inner = v
            m = match("_ImmutableTaskList($c)", v)
            if m:
                inner = m['c']
            w = _whole(inner, is_match, order_matters=True)
            if w == 'whole':
                good_returns.append(r)
                continue
            if isinstance(w, tuple):
                if w[0] == 'filtered':
                    o.refute(f, r, r.value, f"remove_all returns only part of the matching tasks ({w[1]}): a match that already left "
                                            f"together with a removed ancestor's subtree is reported as not removed; all matches must be "
                                            f"returned")
                else:
                    o.refute(f, r, r.value, f"remove_all does not return the matches in list order: {w[1]}")
                continue
            empty = isinstance(inner, (ast.List, ast.Tuple)) and not inner.elts
            if empty:
                conds = facts.node_conditions(prog, f, r, ctx.typer)
                conds = [(Expander(prog, f, ctx.typer, inline=False).expand(t, cfg.node_of(r)), p) if False else (t, p) for t, p in conds]
                ok = False
                for t, pol in conds:
                    if (match("not $m", t) and is_match(match("not $m", t)['m']) and pol) or (is_match(t) and not pol) or \
                            (match("len($m) == 0", t) and is_match(match("len($m) == 0", t)['m']) and pol) or \
                            (match("len($m) > 0", t) and is_match(match("len($m) > 0", t)['m']) and not pol):
                        ok = True
                raw = facts.node_conditions(prog, f, r, ctx.typer, expand=False)
                if ok:
                    good_returns.append(r)
                elif any(names_in(t) - set(f.params) - {'len', 'bool', 'callable', 'isinstance'} for t, _ in raw):
                    # guarded by a test on a local this rule could not identify with the match list
                    o.undecided(f, r, r, "remove_all returns an empty list under a condition the rule does not understand (" +
                                ', '.join(facts.cond_texts(raw)) + ")")
                else:
                    o.refute(f, r, r, "remove_all returns an empty list although tasks may have matched (and been removed)")
                continue
            o.undecided(f, r, r.value, f"remove_all returns `{src(v)[:100]}`: not recognised as the match list")
        if rets and len(good_returns) == len(rets):
            # one site per function (not per return statement: merging the two returns is behaviour preserving)
            o.site(f, rets[-1], f"all {len(rets)} return(s) yield the match list (an empty list only when nothing matched)")

    def bulk_walk(o, f, DOOMED, CUR, kind):
        """single-walk removal `prune(doomed, current)`: drops the doomed tasks from current's children and must then visit EVERY
        remaining child subtree - the matches are spread over the tree, so a walk that stops after the first subtree that
        reported a removal (`any(<generator>)`, `return` / `break` in the loop, `removed or ..`) leaves matches behind"""
        cfg = cfg_of(f)
        ex = Expander(prog, f, ctx.typer, inline=False)

        def is_children(e):
            return bool(match(f"{CUR}.children", e) or match(f"{CUR}._Task__children", e))

        def doomed_test(t, child):
            """`id(child) in DOOMED` / `child in DOOMED` -> (positive?, 'id' | 'obj') else None"""
            if isinstance(t, ast.UnaryOp) and isinstance(t.op, ast.Not):
                r = doomed_test(t.operand, child)
                return (not r[0], r[1]) if r else None
            if isinstance(t, ast.Compare) and len(t.ops) == 1 and isinstance(t.ops[0], (ast.In, ast.NotIn)) \
                    and match(DOOMED, t.comparators[0]):
                k = 'id' if match(f"id({child})", t.left) else ('obj' if match(child, t.left) else None)
                if k:
                    return (isinstance(t.ops[0], ast.In), k)
            return None

        # ---- the removal at the current node:  current.children = [ch for ch in current.children if id(ch) not in doomed]
        kept_forms = []
        done = False
        for node, tgt, val in facts.attr_stores(f, 'children'):
            if not (isinstance(tgt.value, ast.Name) and tgt.value.id == CUR) or val is None:
                continue
            v = ex.expand(val, cfg.node_of(node))
            parts = facts.comp_parts(v) if isinstance(v, (ast.ListComp, ast.GeneratorExp)) else None
            if not parts or not isinstance(parts[1], ast.Name) or not match(parts[1].id, parts[0]) or \
                    _whole(parts[2], is_children, True) != 'whole' or len(parts[3]) != 1:
                o.undecided(f, node, val, f"`{src(node)[:90]}` is not `{CUR}.children = [ch for ch in {CUR}.children if <ch not doomed>]`")
                return
            dt = doomed_test(parts[3][0], parts[1].id)
            if dt is None:
                o.undecided(f, node, parts[3][0], f"filter `{src(parts[3][0])}` is not a membership test against `{DOOMED}`")
                return
            if dt[1] != kind:
                o.undecided(f, node, parts[3][0], f"`{src(parts[3][0])}` tests {'object ids' if dt[1] == 'id' else 'tasks'} but remove_all "
                                                  f"hands over {'object ids' if kind == 'id' else 'tasks'}")
                return
            if dt[0]:
                o.refute(f, node, parts[3][0], f"`{src(node)[:90]}` keeps exactly the tasks to remove (`{src(parts[3][0])}`)")
                return
            kept_forms.append(v)
            o.site(f, node, f"{CUR}.children = the children not in {DOOMED}")
            done = True
        if not done:
            o.undecided(f, f.node, 'children rebuild', f"{f.qual} does not rebuild `{CUR}.children` without the tasks in `{DOOMED}`")
            return
        # ---- the descent
        rec = []
        for n in walk_no_nested(f.node):
            if isinstance(n, ast.Call) and callee_of(f, n) is not None and callee_of(f, n).qual == f.qual:
                rec.append(n)
        if not rec:
            o.refute(f, f.node, 'recursion', "the tree walk does not descend into the children: only root tasks can be removed")
            return
        pp = own_params(f)
        for c in rec:
            cn = cfg.node_containing(c)
            cargs = facts.bound_args(c, f)
            a_d = cargs[pp.index(DOOMED)] if len(cargs) == 2 else None
            a_c = cargs[pp.index(CUR)] if len(cargs) == 2 else None
            if a_d is None or not match(DOOMED, a_d) or not isinstance(a_c, ast.Name) or cn is None:
                o.undecided(f, c, c, "recursive call in an unexpected shape")
                continue
            child = a_c.id
            comp = _enclosing_comp(f, c, child)
            fo = _enclosing_for(f, c, child)
            if comp is not None:
                gen = next(x for x in comp.generators if isinstance(x.target, ast.Name) and x.target.id == child)
                it, filt, loop_node = ex.expand(gen.iter, cn), list(gen.ifs), comp
            elif fo is not None:
                it, filt, loop_node = ex.expand(fo.iter, cfg.node_of(fo)), [], fo
            else:
                o.undecided(f, c, c, "recursive call not inside a loop / comprehension over the children")
                continue
            if not any(same(it, k) for k in kept_forms):
                w = _whole(it, is_children)
                if w is None:
                    o.undecided(f, loop_node, it, "the walk does not iterate the (remaining) children of the current node")
                    continue
                if w != 'whole':
                    o.refute(f, loop_node, it, f"the tree walk skips subtrees: {w[1]}")
                    continue
            if filt:
                o.refute(f, loop_node, it, "the tree walk skips subtrees: comprehension filter `" + ' and '.join(src(x) for x in filt) + "`")
                continue
            # every subtree must be visited: no short circuit around the recursive call
            stmt = cn.ast
            parents = {}
            for pnode in ast.walk(stmt):
                for ch in ast.iter_child_nodes(pnode):
                    parents[id(ch)] = pnode
            cut = None
            x = c
            while id(x) in parents and cut is None:
                par = parents[id(x)]
                if isinstance(par, ast.Call) and isinstance(par.func, ast.Name) and par.func.id in ('any', 'all', 'next') \
                        and isinstance(x, ast.GeneratorExp):
                    cut = (par, f"`{par.func.id}(<generator>)` stops at the first subtree that reports a removal")
                elif isinstance(par, ast.BoolOp) and par.values[0] is not x and not isinstance(par.values[0], ast.Constant):
                    cut = (par, f"`{src(par)[:80]}` evaluates the descent only when the left operand does not decide the result")
                elif isinstance(par, ast.IfExp) and par.test is not x:
                    cut = (par, f"`{src(par)[:80]}` evaluates the descent on one side only")
                x = par
            if cut is None and fo is not None and comp is None:
                exits = _loop_exits(fo)
                if exits:
                    cut = (exits[0], f"`{src(exits[0])}` inside the loop over the children stops the walk early")
            if cut is not None:
                o.refute(f, cut[0], cut[0], f"{cut[1]}: the remaining sibling subtrees are never walked, so matching tasks nested there stay in "
                                            f"the WBS although remove_all returns them (all matches are removed in ONE walk here)")
                continue
            extra = [(t, p) for t, p in facts.node_conditions(prog, f, c, ctx.typer)]
            if extra:
                o.undecided(f, c, c, "the descent is conditional: " + ', '.join(facts.cond_texts(extra)))
                continue
            o.site(f, c, f"{src(c)} for every remaining child")

    def iterative_walk(o, f, TASK, CUR, cfg, ex):
        """the walk with an explicit work list instead of recursion:
               pending = [current]
               while pending:
                   node = pending.pop()
                   if node.children.remove(task): return True
                   pending.extend(node.children)            # every child, any order
        """
        loop = next(n for n in walk_no_nested(f.node) if isinstance(n, ast.While))
        t = loop.test
        m = None
        for pat in ("$w", "len($w) > 0", "len($w) != 0", "len($w)", "$w != []", "len($w) >= 1", "bool($w)"):
            m = match(pat, t)
            if m and isinstance(m['w'], ast.Name):
                break
            m = None
        if m is None or loop.orelse:
            o.undecided(f, loop, loop.test, f"`while {src(loop.test)}`: not a loop over a work list of tasks still to visit")
            return
        W = m['w'].id
        inits = [n for n in walk_no_nested(f.node) if isinstance(n, (ast.Assign, ast.AnnAssign)) and any(
            isinstance(x, ast.Name) and x.id == W for x in (n.targets if isinstance(n, ast.Assign) else [n.target]))]
        init_ok = len(inits) == 1 and inits[0].value is not None and not any(x is inits[0] for st in loop.body for x in ast.walk(st))
        if init_ok:
            iv = inits[0].value
            if isinstance(iv, ast.Call) and getattr(iv.func, 'id', getattr(iv.func, 'attr', '')) in ('deque', 'list') and len(iv.args) == 1:
                iv = iv.args[0]
            init_ok = isinstance(iv, (ast.List, ast.Tuple)) and len(iv.elts) == 1 and match(CUR, iv.elts[0])
        if not init_ok:
            o.undecided(f, inits[0] if inits else loop, inits[0] if inits else W, f"the work list `{W}` does not start as `[{CUR}]`")
            return
        body_nodes, _seen = [], set()
        for x in [y for st in loop.body for y in walk_no_nested(st)] + list(loop.body):
            if id(x) not in _seen:
                _seen.add(id(x))
                body_nodes.append(x)
        pops = [n for n in body_nodes if isinstance(n, ast.Assign) and len(n.targets) == 1 and isinstance(n.targets[0], ast.Name)
                and isinstance(n.value, ast.Call) and isinstance(n.value.func, ast.Attribute) and match(W, n.value.func.value)
                and n.value.func.attr in ('pop', 'popleft')]
        if len(pops) != 1 or pops[0] not in loop.body:
            o.undecided(f, loop, loop, f"the loop does not take exactly one task from `{W}` per round (`node = {W}.pop()`)")
            return
        N = pops[0].targets[0].id

        def is_children(e):
            return bool(match(f"{N}.children", e) or match(f"{N}._Task__children", e))

        def is_direct(c):
            if not (isinstance(c, ast.Call) and isinstance(c.func, ast.Attribute) and c.func.attr == 'remove' and len(c.args) == 1
                    and not c.keywords and match(TASK, c.args[0])):
                return False
            cn = cfg.node_containing(c)
            return is_children(ex.expand(c.func.value, cn, stop={N}) if cn is not None else c.func.value)

        in_loop = {id(x) for x in body_nodes}
        direct = [c for c in facts.calls_named(f, 'remove') if id(c) in in_loop and is_direct(c)]
        others = [c for c in facts.calls_named(f, 'remove') if not is_direct(c)]
        if direct:
            o.site(f, direct[0], src(direct[0]))
        elif others:
            o.undecided(f, others[0], others[0], f"`{src(others[0])}` is not recognised as `{N}.children.remove({TASK})`")
        else:
            o.refute(f, f.node, 'children.remove', f"the tree walk never removes the task from the visited node's children "
                                                   f"(`{N}.children.remove({TASK})` missing)")
        # ---- every child of the visited node goes onto the work list
        pushes = []          # (node, pushed collection, loop that binds a single pushed child or None)
        for n in body_nodes:
            if isinstance(n, ast.Call) and isinstance(n.func, ast.Attribute) and match(W, n.func.value) and n.args:
                if n.func.attr in ('extend', 'extendleft') and len(n.args) == 1:
                    pushes.append((n, n.args[0], None))
                elif n.func.attr in ('append', 'appendleft', 'insert') and isinstance(n.args[-1], ast.Name):
                    fo = _enclosing_for(f, n, n.args[-1].id)
                    if fo is not None and any(x is fo for x in body_nodes):
                        pushes.append((n, fo.iter, fo))
                    else:
                        pushes.append((n, None, None))
            elif isinstance(n, ast.AugAssign) and isinstance(n.op, ast.Add) and match(W, n.target):
                pushes.append((n, n.value, None))
        if not pushes:
            o.undecided(f, loop, 'descent', f"no statement of the loop puts the children of `{N}` onto `{W}`")
            return
        for n, coll, fo in pushes:
            cn = cfg.node_containing(n) or cfg.node_of(n)
            if coll is None or cn is None:
                o.undecided(f, n, n, f"`{src(n)}` is not understood as pushing the children of `{N}`")
                continue
            it = ex.expand(coll, cfg.node_of(fo) if fo is not None else cn, stop={N})
            w = _whole(it, is_children)
            if w is None:
                o.undecided(f, n, it, f"`{src(n)[:80]}` does not push `{N}.children`")
                continue
            if w != 'whole':
                o.refute(f, n, it, f"the tree walk skips subtrees: {w[1]}")
                continue
            if fo is not None and _loop_exits(fo):
                ex0 = _loop_exits(fo)[0]
                o.refute(f, ex0, ex0, f"`{src(ex0)}` inside the loop that pushes the children: the walk skips the remaining subtrees")
                continue
            bad = []
            for c_raw, c_p0 in facts.node_conditions(prog, f, n, ctx.typer, expand=False):
                c_x = ex.expand(c_raw, cfg.node_containing(c_raw), stop={N, W}) if cfg.node_containing(c_raw) is not None else c_raw
                for c_t, c_p in facts.split_conj(c_x, c_p0):
                    if same(c_t, loop.test) or (match(W, c_t) and c_p):
                        continue
                    if any(is_direct_text(x) for x in ast.walk(c_t)) and not (names_in(c_t) - {N, TASK}) and not c_p:
                        continue
                    if match(f"{TASK} is None", c_t) and not c_p:
                        continue
                    if match(f"len({W}) > 0", c_t) or match(f"len({W})", c_t) or match(f"len({W}) != 0", c_t):
                        continue
                    bad.append((c_t, c_p))
            if bad:
                o.undecided(f, n, n, "the descent is conditional: " + ', '.join(facts.cond_texts(bad)))
                continue
            o.site(f, n, f"while {W}: {N} = {W}.pop(); ..; {src(n)[:70]}")

    def flat_walk(o, f, TASK, CUR, cfg, ex) -> bool:
        """the walk flattened into one loop over the node and all its descendants:
               for candidate in [current] + list(current.all_children):
                   if candidate.children.remove(task): return True
        (nothing changes until the task is found, so the candidates may be listed up front).  Returns False when the function
        does not have this shape at all (the caller then goes on with the recursive reading)."""
        loops = []
        for fo in walk_no_nested(f.node):
            if isinstance(fo, ast.For) and isinstance(fo.target, ast.Name):
                v = fo.target.id
                for c in facts.calls_named(f, 'remove'):
                    if any(x is c for st in fo.body for x in ast.walk(st)) and len(c.args) == 1 and match(TASK, c.args[0]) \
                            and isinstance(c.func, ast.Attribute):
                        cn = cfg.node_containing(c)
                        recv = ex.expand(c.func.value, cn, stop={v}) if cn is not None else c.func.value
                        if match(f"{v}.children", recv) or match(f"{v}._Task__children", recv):
                            loops.append((fo, c))
        if len(loops) != 1:
            return False
        fo, c = loops[0]
        v = fo.target.id

        def concat(e, depth=0):
            """terms of `A + B + ..`; a local built by `x = A; x += B; x.extend(C)` (straight-line, before the loop) is unfolded"""
            if isinstance(e, ast.BinOp) and isinstance(e.op, ast.Add):
                l, r = concat(e.left, depth), concat(e.right, depth)
                return None if l is None or r is None else l + r
            if isinstance(e, ast.Name) and depth < 3 and e.id not in f.params:
                parts = []
                for st in f.node.body:
                    if st is fo:
                        break
                    tg = st.targets if isinstance(st, ast.Assign) else ([st.target] if isinstance(st, (ast.AugAssign, ast.AnnAssign)) else [])
                    if any(isinstance(t, ast.Name) and t.id == e.id for t in tg):
                        if isinstance(st, ast.AugAssign):
                            if not isinstance(st.op, ast.Add) or not parts:
                                return None
                            parts.append(st.value)
                        elif getattr(st, 'value', None) is not None:
                            parts = [st.value]
                    elif isinstance(st, ast.Expr) and isinstance(st.value, ast.Call) and isinstance(st.value.func, ast.Attribute) \
                            and match(e.id, st.value.func.value) and len(st.value.args) == 1 and parts:
                        if st.value.func.attr == 'extend':
                            parts.append(st.value.args[0])
                        elif st.value.func.attr == 'append':
                            parts.append(ast.List(elts=[st.value.args[0]], ctx=ast.Load()))
                        else:
                            return None
                    elif any(isinstance(n, ast.Name) and n.id == e.id for n in ast.walk(st)):
                        if any(isinstance(n, ast.Name) and n.id == e.id and isinstance(n.ctx, ast.Store) for n in ast.walk(st)):
                            return None
                if not parts:
                    return None
                out = []
                for x in parts:
                    t = concat(x, depth + 1)
                    if t is None:
                        return None
                    out += t
                return out
            return [e]

        it = ex.expand(fo.iter, cfg.node_of(fo))
        terms = concat(it)
        if terms is None:
            o.undecided(f, fo, fo.iter, f"the candidates `{src(it)[:80]}` of the flat walk are not understood")
            return True
        kinds = []
        for t in terms:
            w = _whole(t, lambda e: bool(match(f"{CUR}.all_children", e) or match(f"{CUR}.all_children._list", e)))
            wk = _whole(t, lambda e: bool(match(f"{CUR}.children", e) or match(f"{CUR}._Task__children", e)))
            if isinstance(t, (ast.List, ast.Tuple)) and len(t.elts) == 1 and match(CUR, t.elts[0]):
                kinds.append('self')
            elif w == 'whole':
                kinds.append('desc')
            elif isinstance(w, tuple):
                o.refute(f, fo, t, f"the flat walk skips tasks of the subtree: {w[1]}")
                return True
            elif wk == 'whole' or isinstance(wk, tuple):
                kinds.append('kids')
            else:
                o.undecided(f, fo, t, f"candidate term `{src(t)[:80]}` is neither `[{CUR}]` nor `{CUR}.all_children`")
                return True
        o.site(f, c, src(c))
        if 'desc' not in kinds:
            if 'kids' in kinds:
                o.refute(f, fo, it, f"the walk visits only `{CUR}`'s direct children (`{src(it)[:80]}`): tasks nested deeper cannot be removed; "
                                    f"the candidates must be `{CUR}` and all its descendants")
            else:
                o.refute(f, fo, it, f"the walk does not descend into the children (`{src(it)[:80]}`): only root tasks can be removed")
            return True
        if 'self' not in kinds:
            o.refute(f, fo, it, f"the candidates `{src(it)[:80]}` leave out `{CUR}` itself: its direct children (the root tasks) cannot be removed")
            return True
        for ex0 in _loop_exits(fo):
            conds = facts.node_conditions(prog, f, ex0, ctx.typer, expand=False)
            if not any(any(is_direct_text(x) or (isinstance(x, ast.Call) and x is c) for x in ast.walk(t)) and pol for t, pol in conds):
                o.undecided(f, ex0, ex0, f"`{src(ex0)}` leaves the candidate loop under a condition other than 'the task was found and removed'")
                return True
        bad = [(t, p) for t, p in facts.node_conditions(prog, f, c, ctx.typer, expand=False)
               if not (match(f"{TASK} is None", t) and not p) and not any(x is c for x in ast.walk(t))]
        if bad:
            o.undecided(f, c, c, "the removal attempt is conditional: " + ', '.join(facts.cond_texts(bad)))
            return True
        o.site(f, fo, f"for {v} in [{CUR}] + {CUR}.all_children: {src(c)}")
        return True

    def tree_walk(o):
        start = None
        if walkers:
            if len({w[0].qual for w in walkers}) > 1:
                o.undecided(walkers[1][0], walkers[1][5], walkers[1][5], "WBS.remove_all uses more than one tree walker")
                return
            start = walkers[0]
        elif prog.has_func('wbs.WBS.__remove'):
            f0 = prog.func('wbs.WBS.__remove')
            if len(f0.params) != 3:
                o.undecided(f0, f0.node, '__remove signature', "unexpected signature")
                return
            start = [f0, f0.params[1], f0.params[2], 'single', None, None]
        else:
            # remove_all goes through the public WBS.remove: the walker is what that one calls with the root
            r = prog.func('wbs.WBS.remove')
            exr, cfr = Expander(prog, r, ctx.typer, inline=False), cfg_of(r)
            for n in walk_no_nested(r.node):
                wk = walker_call(r, n, r.params[0], exr, cfr) if isinstance(n, ast.Call) else None
                if wk is not None and isinstance(wk[1], ast.Name):
                    start = [wk[0], wk[2], wk[3], 'single', None, n]
            if start is None:
                prog.func('wbs.WBS.__remove')       # AnchorMissing -> exit 2
        if start[3] == 'skip':
            return
        if start[3] == 'bulk':
            bulk_walk(o, start[0], start[1], start[2], start[4])
            return
        # (function, name of its task parameter, name of its current-node parameter); the walker may hand the walk over to a
        # private helper (`return self.__remove_below(task, current)` after the None pre-check)
        chain = [(start[0], start[1], start[2])]

        def self_calls(f):
            """calls of package functions by name in f -> [(call, callee)]"""
            out = []
            for n in walk_no_nested(f.node):
                if isinstance(n, ast.Call):
                    g = callee_of(f, n)
                    if g is not None:
                        out.append((n, g))
            return out

        while len(chain) < 4:
            f, TASK, CUR = chain[-1]
            known = {x[0].qual for x in chain}
            calls = self_calls(f)
            if facts.calls_named(f, 'remove') or any(g.qual in known for _, g in calls):
                break
            cands = []
            for c, g in calls:
                if len(own_params(g)) != 2:
                    continue
                cargs = facts.bound_args(c, g)
                if len(cargs) == 2 and all(isinstance(x, ast.Name) for x in cargs) and {cargs[0].id, cargs[1].id} == {TASK, CUR}:
                    cands.append((c, g, cargs))
            if len(cands) != 1:
                break
            c, g, cargs = cands[0]
            bad = [(t, p) for t, p in facts.node_conditions(prog, f, c, ctx.typer) if not (match(f"{TASK} is None", t) and not p)]
            if bad:
                o.undecided(f, c, c, f"the walk is handed to {g.qual} only under a condition: " + ', '.join(facts.cond_texts(bad)))
                return
            gp = own_params(g)
            chain.append((g, gp[0] if cargs[0].id == TASK else gp[1], gp[1] if cargs[1].id == CUR else gp[0]))

        f, TASK, CUR = chain[-1]
        cfg = cfg_of(f)
        ex = Expander(prog, f, ctx.typer, inline=False)
        by_name = {x[0].name: x for x in chain}
        # helpers of the class this rule did not look into: "not found" is then not a closed-world statement
        unfollowed = [g for _, g in self_calls(f) if g.name not in by_name and g.name not in ('remove',)]

        def is_children(e):
            return bool(match(f"{CUR}.children", e) or match(f"{CUR}._Task__children", e))

        def is_direct(c):
            """`<current>.children.remove(<task>)`, the children list possibly held in a local"""
            if not (isinstance(c, ast.Call) and isinstance(c.func, ast.Attribute) and c.func.attr == 'remove' and len(c.args) == 1
                    and not c.keywords and match(TASK, c.args[0])):
                return False
            cn = cfg.node_containing(c)
            return is_children(ex.expand(c.func.value, cn) if cn is not None else c.func.value)

        if not any(g.name in by_name for _, g in self_calls(f)) and \
                sum(isinstance(n, ast.While) for n in walk_no_nested(f.node)) == 1:
            iterative_walk(o, f, TASK, CUR, cfg, ex)
            return
        if not any(g.name in by_name for _, g in self_calls(f)) and \
                not any(isinstance(n, ast.While) for n in walk_no_nested(f.node)) and flat_walk(o, f, TASK, CUR, cfg, ex):
            return
        all_removes = [c for c in facts.calls_named(f, 'remove')]
        direct = [c for c in all_removes if is_direct(c)]
        if direct:
            o.site(f, direct[0], src(direct[0]))
        elif not all_removes and unfollowed:
            o.undecided(f, f.node, 'children.remove', f"no `{CUR}.children.remove({TASK})` in {f.qual}, but it calls "
                                                      f"{unfollowed[0].qual}, which this rule does not follow")
        elif not all_removes:
            o.refute(f, f.node, 'children.remove', f"the tree walk never removes the task from the current node's children "
                                                   f"(`{CUR}.children.remove({TASK})` missing)")
        else:
            c0 = all_removes[0]
            cn0 = cfg.node_containing(c0)
            recv0 = ex.expand(c0.func.value, cn0) if cn0 is not None and isinstance(c0.func, ast.Attribute) else None
            via_parent = recv0 is not None and any(isinstance(n, ast.Attribute) and n.attr in ('parent', '_Task__parent') and
                                                   match(TASK, n.value) for n in ast.walk(recv0))
            if via_parent and len(c0.args) == 1 and match(TASK, c0.args[0]):
                o.refute(f, c0, c0, f"`{src(c0)}` (receiver `{src(recv0)[:80]}`) unlinks the task from its OWN parent, wherever that is, instead "
                                    f"of looking for it below `{CUR}`: a match that already left the WBS together with a matching ancestor "
                                    f"is torn out of that detached subtree (the walk from the root simply would not find it)")
            else:
                o.undecided(f, c0, c0, f"`{src(c0)}` is not recognised as `{CUR}.children.remove({TASK})`")
            if not any(g.name in by_name for _, g in self_calls(f)):
                return           # another design of the removal: "it does not descend" would not be a statement about this code
        rec = [(c, by_name[g.name]) for c, g in self_calls(f) if g.name in by_name]
        if not rec and unfollowed:
            o.undecided(f, f.node, 'recursion', f"no recursive descent in {f.qual}, but it calls {unfollowed[0].qual}, which this "
                                                f"rule does not follow")
            return
        if not rec and any(isinstance(n, ast.While) for n in walk_no_nested(f.node)):
            o.undecided(f, f.node, 'recursion', f"{f.qual} has no recursive call but a `while` loop: an iterative walk (explicit stack / "
                                                f"queue) is not modelled by this rule")
            return
        if not rec and any(isinstance(n, (ast.For, ast.ListComp, ast.GeneratorExp, ast.SetComp)) for n in walk_no_nested(f.node)):
            o.undecided(f, f.node, 'recursion', f"{f.qual} has no recursive call but a loop this rule does not understand as a walk over "
                                                f"the subtree")
            return
        if not rec:
            o.refute(f, f.node, 'recursion', "the tree walk does not descend into the children: only root tasks can be removed")
            return
        for c, (callee, c_task, c_cur) in rec:
            cn = cfg.node_containing(c)
            cargs = facts.bound_args(c, callee)
            cp = own_params(callee)
            a_task = cargs[cp.index(c_task)] if len(cargs) == 2 else None
            a_cur = cargs[cp.index(c_cur)] if len(cargs) == 2 else None
            if a_task is None or not match(TASK, a_task) or not isinstance(a_cur, ast.Name) or cn is None:
                o.undecided(f, c, c, "recursive call in an unexpected shape")
                continue
            child = a_cur.id
            comp = _enclosing_comp(f, c, child)
            fo = _enclosing_for(f, c, child)
            if comp is not None:
                # any(self.__remove(task, ch) for ch in current.children): stops at the first subtree that contained the task
                g = next(g for g in comp.generators if isinstance(g.target, ast.Name) and g.target.id == child)
                it, loop_node = ex.expand(g.iter, cn), comp
                filt = list(g.ifs)
                text = f"{src(c)} for {child} in {src(it)}"
            elif fo is not None:
                it, loop_node, filt = ex.expand(fo.iter, cfg.node_of(fo)), fo, []
                text = f"for {child} in {src(it)}: {src(c)}"
            else:
                o.undecided(f, c, c, "recursive call not inside a loop / comprehension over the children")
                continue
            w = _whole(it, is_children)
            if w is None:
                o.undecided(f, loop_node, it, "the walk does not iterate `current.children`")
                continue
            if w != 'whole' or filt:
                why = w[1] if w != 'whole' else "comprehension filter `" + ' and '.join(src(x) for x in filt) + "`"
                o.refute(f, loop_node, it, f"the tree walk skips subtrees: {why}")
                continue
            # allowed: "the task was not found among the current node's children" and the None pre-check
            bad = [(t, p) for t, p in facts.node_conditions(prog, f, c, ctx.typer)
                   if not (any(is_direct_text(x) for x in ast.walk(t)) and not (names_in(t) - {CUR, TASK}) and not p) and
                   not (match(f"{TASK} is None", t) and not p)]
            if bad:
                o.undecided(f, c, c, "the descent is conditional: " + ', '.join(facts.cond_texts(bad)))
            else:
                o.site(f, c, text)

    def is_direct_text(x):
        return isinstance(x, ast.Call) and isinstance(x.func, ast.Attribute) and x.func.attr == 'remove' and \
            isinstance(x.func.value, ast.Attribute) and x.func.value.attr in ('children', '_Task__children')

    def body(o):
        variant(o, 'task._TaskList.remove_all', False)
        variant(o, 'wbs.WBS.remove_all', True)
        tree_walk(o)

    ctx.guarded(o, body)


# ------------------------------------------------------------------------------------------------- C18.remove_each
def _strip_copy(e: ast.AST) -> ast.AST:
    """list(X) / tuple(X) / X.copy() / X[:] / [v for v in X] -> X"""
    while True:
        if isinstance(e, ast.Call) and isinstance(e.func, ast.Name) and e.func.id in ('list', 'tuple', 'iter') and len(e.args) == 1 \
                and not e.keywords:
            e = e.args[0]
        elif isinstance(e, ast.Call) and isinstance(e.func, ast.Attribute) and e.func.attr == 'copy' and not e.args:
            e = e.func.value
        elif isinstance(e, ast.Subscript) and isinstance(e.slice, ast.Slice) and e.slice.lower is None and e.slice.upper is None \
                and e.slice.step is None:
            e = e.value
        else:
            return e


def _remove_each(ctx):
    """remove_all calls `self.remove(t)` once per match on ONE list object.  Every concrete `remove` rebuilds the owner's list
    and writes it through the owner's property setter; the source of the rebuild must be current at EVERY call: either the
    owner's property read again, or the wrapper's own `_list` - but the latter only when the setter keeps the backing list
    object (updates it in place).  A setter that binds a new list (`self.__predecessors = [..]`) leaves the wrapper with a
    stale snapshot: the second removal rebuilds from it and re-adds what the first one removed."""
    prog = ctx.prog
    o = ctx.ob('remove_each', 'R4',
               "`remove` of every concrete task list rebuilds the owner's list from a source that is current at every call of one "
               "list object: the owner's property read again, or the wrapper's `_list` only if the property setter never rebinds "
               "the backing field", floor=3)

    def backing_field(ci, P):
        """mangled name of the Task field the getter of P hands to the list wrapper as `_list` (None: not recognised)"""
        g = prog.find_getter('Task', P)
        ctor = prog.find_method(ci.name, '__init__')
        if g is None or ctor is None:
            return None
        rets = [n for n in walk_no_nested(g.node) if isinstance(n, ast.Return) and n.value is not None]
        if len(rets) != 1:
            return None
        v = Expander(prog, g, ctx.typer, inline=False).expand(rets[0].value)
        if not (isinstance(v, ast.Call) and isinstance(v.func, ast.Name) and v.func.id == ci.name):
            return None
        lp = None
        for n in walk_no_nested(ctor.node):
            if isinstance(n, ast.Call) and isinstance(n.func, ast.Attribute) and n.func.attr == '__init__' and n.args \
                    and isinstance(n.func.value, ast.Call) and getattr(n.func.value.func, 'id', '') == 'super' \
                    and isinstance(n.args[0], ast.Name):
                lp = n.args[0].id
        if lp is None:
            lp = '_list' if '_list' in ctor.params else None
        if lp is None or lp not in ctor.params[1:]:
            return None
        args = facts.bound_args(v, ctor)
        a = args[ctor.params[1:].index(lp)]
        if isinstance(a, ast.Attribute) and isinstance(a.value, ast.Name) and a.value.id == g.params[0]:
            return a.attr
        return None

    def rebinds(P, F):
        """stores `self.<F> = <new object>` in the setter of P and in the private Task methods it calls on self"""
        st = prog.find_setter('Task', P)
        if st is None:
            return None
        funcs = [st]
        for n in walk_no_nested(st.node):
            if isinstance(n, ast.Call) and isinstance(n.func, ast.Attribute) and isinstance(n.func.value, ast.Name) \
                    and n.func.value.id == st.params[0] and unmangle(n.func.attr).startswith('__'):
                g = prog.find_method('Task', unmangle(n.func.attr))
                if g is not None and g not in funcs:
                    funcs.append(g)
        out = []
        for fn in funcs:
            for node, tgt, val in facts.attr_stores(fn, F):
                if isinstance(node, ast.AugAssign) or val is None:
                    continue
                if not (isinstance(tgt.value, ast.Name) and tgt.value.id == fn.params[0]):
                    continue
                if isinstance(val, ast.Attribute) and same(val, tgt):
                    continue
                out.append((fn, node))
        return out

    def one(o, ci, f):
        if len(f.params) < 2:
            o.undecided(f, f.node, 'remove signature', "remove is not (self, task)")
            return
        SELF = f.params[0]
        cfg = cfg_of(f)
        ex = Expander(prog, f, ctx.typer, inline=False)
        stores = [(n, t, v) for n, t, v in facts.attr_stores(f)
                  if v is not None and not (isinstance(t.value, ast.Name) and t.value.id == SELF)
                  and prog.find_setter('Task', t.attr) is not None
                  and ctx.typer.expr_type(t.value, f) in ('Task', None)]

        def class_const(attr):
            """class-level `attr = <constant>` of the concrete list class (first in its MRO) -> Constant node"""
            for c in prog.mro(ci.name):
                for st in c.node.body:
                    tg = st.targets[0] if isinstance(st, ast.Assign) and len(st.targets) == 1 else \
                        (st.target if isinstance(st, ast.AnnAssign) else None)
                    if isinstance(tg, ast.Name) and tg.id == attr and isinstance(getattr(st, 'value', None), ast.Constant):
                        return st.value
            return None

        def prop_name(e, at):
            """property name given to getattr / setattr: a literal, a local bound to one, or `self.<class constant>`"""
            e = ex.expand(e, at) if at is not None else e
            if isinstance(e, ast.Attribute) and isinstance(e.value, ast.Name) and e.value.id == SELF:
                e = class_const(e.attr) or e
            return e.value if isinstance(e, ast.Constant) else e

        abstract = [False]

        class Dyn(ast.NodeTransformer):
            """getattr(X, '<name>') -> X.<name>"""
            def visit_Call(self, node):
                self.generic_visit(node)
                if isinstance(node.func, ast.Name) and node.func.id == 'getattr' and len(node.args) in (2, 3) and not node.keywords:
                    nm = prop_name(node.args[1], None)
                    if isinstance(nm, str):
                        return ast.copy_location(ast.Attribute(value=node.args[0], attr=nm, ctx=ast.Load()), node)
                return node

        # setattr(<owner>, <property name>, <new list>): the same store written by name
        for n in walk_no_nested(f.node):
            if isinstance(n, ast.Call) and isinstance(n.func, ast.Name) and n.func.id == 'setattr' and len(n.args) == 3 and not n.keywords \
                    and not (isinstance(n.args[0], ast.Name) and n.args[0].id == SELF) and cfg.node_containing(n) is not None:
                nm = prop_name(n.args[1], cfg.node_containing(n))
                if nm is None and prog.subclasses(ci.name):
                    abstract[0] = True          # `_link_property = None` in a shared base class: judged in the concrete classes
                elif isinstance(nm, str) and prog.find_setter('Task', nm) is not None:
                    tgt = ast.copy_location(ast.Attribute(value=n.args[0], attr=nm, ctx=ast.Store()), n)
                    stores.append((cfg.node_containing(n).ast, tgt, n.args[2]))
        # template methods: `self._assign_links(<new list>)` implemented per concrete class as `self._owner.<prop> = links`, and
        # `self._current_links()` as `return [v for v in self._owner.<prop>]` - resolved in the CONCRETE class ci
        def hook(name):
            g = prog.find_method(ci.name, unmangle(name))
            if g is None or g.kind != 'method' or not isinstance(g.node, ast.FunctionDef):
                return None, None
            return g, [st for st in g.node.body if not (isinstance(st, ast.Expr) and isinstance(st.value, ast.Constant))
                       and not isinstance(st, ast.Pass)]

        class Virt(ast.NodeTransformer):
            """self.<one-return method of ci>(args) -> its expression"""
            def visit_Call(self, node):
                self.generic_visit(node)
                if isinstance(node.func, ast.Attribute) and isinstance(node.func.value, ast.Name) and node.func.value.id == SELF \
                        and not node.keywords:
                    g, body = hook(node.func.attr)
                    if g is not None and len(body) == 1 and isinstance(body[0], ast.Return) and body[0].value is not None \
                            and len(g.params) - 1 == len(node.args):
                        bind = dict(zip(g.params[1:], node.args))
                        bind[g.params[0]] = ast.Name(id=SELF, ctx=ast.Load())
                        return ast.copy_location(subst(body[0].value, bind), node)
                return node

        for n in walk_no_nested(f.node):
            if isinstance(n, ast.Call) and isinstance(n.func, ast.Attribute) and isinstance(n.func.value, ast.Name) \
                    and n.func.value.id == SELF and len(n.args) == 1 and not n.keywords and cfg.node_containing(n) is not None \
                    and isinstance(cfg.node_containing(n).ast, ast.Expr) and cfg.node_containing(n).ast.value is n:
                g, body = hook(n.func.attr)
                if g is None or g.name in ('remove', 'append') or len(g.params) != 2:
                    continue
                if not body and prog.subclasses(ci.name):
                    abstract[0] = True              # abstract template method: judged in the concrete classes
                    continue
                if len(body) == 1 and isinstance(body[0], ast.Assign) and len(body[0].targets) == 1 \
                        and isinstance(body[0].targets[0], ast.Attribute) and isinstance(body[0].value, ast.Name) \
                        and body[0].value.id == g.params[1] and prog.find_setter('Task', body[0].targets[0].attr) is not None:
                    tgt = subst(body[0].targets[0], {g.params[0]: ast.Name(id=SELF, ctx=ast.Load())})
                    ast.copy_location(tgt, n)
                    ast.fix_missing_locations(tgt)
                    stores.append((cfg.node_containing(n).ast, tgt, n.args[0]))
        # only stores to the property this list class is the view of (its getter builds `<ListClass>(self, self.<field>, ..)`):
        # `task.parent = None` in a remove of another design is not "the rebuilt list"
        stores = [x for x in stores if backing_field(ci, x[1].attr) is not None]
        if abstract[0] and not stores:
            return
        if not stores:
            # in-place removal from the wrapper's list: the same object at every call, and no setter runs in between
            inplace = [n for n in walk_no_nested(f.node) if isinstance(n, ast.Call) and isinstance(n.func, ast.Attribute)
                       and n.func.attr in ('remove', 'pop') and match(f"{SELF}._list", ex.expand(n.func.value, cfg.node_containing(n)))]
            inplace += [n for n in walk_no_nested(f.node) if isinstance(n, ast.Delete) and any(
                isinstance(t, ast.Subscript) and match(f"{SELF}._list", t.value) for t in n.targets)]
            if inplace:
                o.site(f, inplace[0], f"`{src(inplace[0])}`: removed in place from the wrapper's list (no setter call in between)")
                return
            o.undecided(f, f.node, 'remove',f"{f.qual} does not write the rebuilt list through a property of the owner task")
            return
        for node, tgt, val in stores:
            P = tgt.attr
            cn = cfg.node_of(node)
            v = ast.fix_missing_locations(Dyn().visit(Virt().visit(ex.expand(val, cn))))
            parts = facts.comp_parts(v) if isinstance(v, (ast.ListComp, ast.GeneratorExp)) else None
            if parts is None and isinstance(v, ast.Call) and isinstance(v.func, ast.Name) and v.func.id in ('list', 'tuple') \
                    and len(v.args) == 1:
                inner = v.args[0]
                if isinstance(inner, (ast.ListComp, ast.GeneratorExp)):
                    parts = facts.comp_parts(inner)
                elif isinstance(inner, ast.Call) and isinstance(inner.func, ast.Name) and inner.func.id == 'filter' and len(inner.args) == 2:
                    parts = (None, None, inner.args[1], [])
            if not parts:
                o.undecided(f, node, val, f"the new `{P}` list `{src(v)[:80]}` is not a comprehension over the old list")
                continue
            source = _strip_copy(parts[2])
            owner = ex.expand(tgt.value, cn)
            F = backing_field(ci, P)
            fresh = False
            if isinstance(source, ast.Attribute) and same(source.value, owner) and source.attr in (P, F):
                fresh = True
            elif isinstance(source, ast.Attribute) and source.attr == '_list' and isinstance(source.value, ast.Attribute) \
                    and same(source.value.value, owner) and source.value.attr == P:
                fresh = True
            if fresh:
                o.site(f, node, f"{src(tgt)} rebuilt from `{src(source)}` (read again at every call)")
                continue
            if not (match(f"{SELF}._list", source) or match(SELF, source)):
                o.undecided(f, node, source, f"the new `{P}` list is built from `{src(source)}`: neither the owner's `{P}` nor the "
                                             f"wrapper's `_list`")
                continue
            if F is None:
                o.undecided(f, node, source, f"the getter of Task.{P} is not `{ci.name}(self, self.<field>, ..)`: cannot tell which "
                                             f"list the wrapper holds")
                continue
            rb = rebinds(P, F)
            if rb is None:
                o.undecided(f, node, source, f"Task.{P} has no setter")
                continue
            if rb:
                fn, st = rb[0]
                o.refute(f, node, val, f"`{src(tgt)}` is rebuilt from the wrapper's own snapshot `{src(source)}`, but the `{P}` setter "
                                       f"binds a NEW list (`{src(st)}` in {fn.qual}): after the first removal the snapshot is stale, "
                                       f"and the next removal through the same list object (remove_all with several matches) re-adds "
                                       f"the tasks removed before - only the last match stays removed; rebuild from "
                                       f"`{src(owner)}.{P}`")
                continue
            o.site(f, node, f"{src(tgt)} rebuilt from `{src(source)}`; the {P} setter updates `{unmangle(F)}` in place")

    def trivial(g) -> bool:
        return all(isinstance(st, ast.Pass) or (isinstance(st, ast.Expr) and isinstance(st.value, ast.Constant)) for st in g.node.body)

    def impl_of(ci, f, depth=0):
        """the method that does the work for the concrete class ci: `remove` itself, or - when `remove` is a template method
        (None check, membership guard, `self._remove_existing(task)`) - the hook as implemented in ci.  None: abstract here."""
        if trivial(f):
            return None
        if depth > 2 or len(f.params) < 2:
            return f
        SELF, TASK = f.params[0], f.params[1]
        has_store = any(not (isinstance(t.value, ast.Name) and t.value.id == SELF) for _, t, _ in facts.attr_stores(f)) or any(
            isinstance(n, ast.Call) and isinstance(n.func, ast.Name) and n.func.id == 'setattr' for n in walk_no_nested(f.node))
        if has_store:
            return f
        for n in walk_no_nested(f.node):
            if isinstance(n, ast.Call) and isinstance(n.func, ast.Attribute) and isinstance(n.func.value, ast.Name) \
                    and n.func.value.id == SELF and len(n.args) == 1 and not n.keywords and match(TASK, n.args[0]):
                g = prog.find_method(ci.name, unmangle(n.func.attr))
                if g is not None and g.kind == 'method' and len(g.params) == 2 and g.name not in ('remove', 'index', 'append') \
                        and isinstance(g.node, ast.FunctionDef):
                    if trivial(g):
                        return None if prog.subclasses(ci.name) else f
                    return impl_of(ci, g, depth + 1)
        return f

    def body(o):
        for ci in sorted(prog.subclasses('_TaskList'), key=lambda c: c.name):
            f = prog.find_method(ci.name, 'remove')           # own or inherited from a shared base (e.g. a _LinkList)
            if f is None:
                continue
            f = impl_of(ci, f)
            if f is not None:
                one(o, ci, f)

    ctx.guarded(o, body)
