"""Shared structural analysis of the clone path (WBS.__clone_tasks / __clone / clone / subtree, Task.clone).

Used by C10 (faithful, independent copies) and C06 (the schedulers work on such a copy).  Public entry points:

    clone_provenance(ctx, o, clauses=None)   report the clauses (default: all of PROVENANCE_ALL) into obligation `o`
    find_copy_loops(ctx, f)                  the `for k in X.__dict__...: dst.__setattr__(k, ...)` recogniser
    report_copy_loop(...)                    verdict for one such loop against the spec "only filter: not k.startswith('_')"

Why a dedicated analysis: sa.effects.root_of labels the clone map `mixed` because tasks of other owners are inserted into
it on purpose.  The argument here is structural instead (labels, see `Lab`):
  * the map is born as {t.id: t.clone() for t in <selection>}  -> every selected id maps to a fresh copy;
  * the only later insertions are setdefault(x.id, x) (cannot overwrite a copy) under a dominating `x.wbs != self`;
  * hence map[t.id] for a selected t is a copy (CLONE) and any other map lookup is a copy or an outside task (MAPPED);
  * every store / setter / mutator in the clone functions has a CLONE or freshly constructed receiver.
Assumption recorded in the evidence: ids are unique among the selected tasks (C05), so SRCMAP[t.id] is t.

F39 (outside link ends by identity): clause 'outside-identity' (CloneAnalysis._outside_identity, not part of PROVENANCE_ALL - only
C10 asks for it) + _identity_element / _keep_formula in the relation rebuild; 'externals' gets one site per dependency relation
that hands outside tasks over as themselves, so the site counts of the registration form and of the identity form are equal.

Round 3 additions: guarded store `if k not in map: map[k] = v` == setdefault (CloneAnalysis._absent_guard); accumulate loops
as comprehensions (Labeller.expand_acc / _block_accumulator); "merged" mode when wbs.WBS.__clone_tasks does not exist and
__clone creates the clone map itself (_map_local); read-only aliases of the map (Labeller.map_aliases); guards of relation
stores judged as propositional formulas over relation emptiness of the source task (_rel_prop / _skip_verdict /
_implies_empty); what subtree() hands to __clone must be re-iterable (_given_roots / _raw_roots).
"""
from __future__ import annotations

import ast
from typing import Dict, List, Optional, Tuple

from sa import facts
from sa.cfg import cfg_of
from sa.effects import Effects, MUTATORS
from sa.flow import flow_of, Expander, eval_conditions
from sa.model import Func, unmangle, walk_no_nested, src
from sa.pat import match, same

DEP_RELS = ('predecessors', 'successors')
HIER_RELS = ('parent', 'children')
ALL_RELS = HIER_RELS + DEP_RELS
LINK_ATTRS = {'predecessors', 'successors', 'all_predecessors', 'all_successors', 'all_parents'}

PLURAL = {'SRC': 'SRCS', 'LINK': 'LINKS', 'MAPPED': 'MAPPEDS', 'CLONE': 'CLONES', 'SRCKEY': 'SRCKEYS',
          'NEWCLONE': 'NEWCLONES', 'VAL': 'VAL'}
SINGULAR = {'SRCS': 'SRC', 'LINKS': 'LINK', 'MEMBERS': 'LINK', 'MAPPEDS': 'MAPPED', 'CLONES': 'CLONE',
            'SRCKEYS': 'SRCKEY', 'SRCMAP': 'SRCKEY', 'NEWCLONES': 'NEWCLONE', 'VAL': 'VAL'}
SOURCEISH = {'SRC', 'SRCS', 'LINK', 'LINKS', 'MEMBERS', 'SELF', 'SRCMAP'}
COPYISH = {'CLONE', 'NEWCLONE', 'FRESHWBS'}


class Lab:
    """abstract value of an expression inside the clone functions

    kinds: SRC selected source task | SRCS collection of them | SRCMAP dict id -> selected task | SRCKEY id of a selected
    task | MAP the clone map | NEWMAP the comprehension creating it | NEWCLONE result of <SRC>.clone() | CLONE map[<id of a
    selected task>] | MAPPED other map lookup (copy or outside task) | LINK task reached from a source task through a
    relation (member or outside) | MEMBERS self.roots/self.tasks | SELF | FRESHWBS WBS() | NONE | EMPTY | VAL | UNKNOWN.
    sel: which parts of the selection a SRC* value ranges over: ROOTS, DESC (all_children of a root), CHILD (children of a
    root only), SUB (descendants of some selected task), FILTERED.  origin: name of the binder of the source task."""
    __slots__ = ('kind', 'sel', 'origin', 'nullable')

    def __init__(self, kind, sel=frozenset(), origin=None, nullable=False):
        self.kind, self.sel, self.origin, self.nullable = kind, frozenset(sel), origin, nullable

    def __repr__(self):
        return f"<{self.kind} {sorted(self.sel)} {self.origin}{'?' if self.nullable else ''}>"


UNKNOWN = Lab('UNKNOWN')


def join(labs: List[Lab]) -> Lab:
    labs = [l for l in labs if l is not None]
    if not labs:
        return UNKNOWN
    kinds = {l.kind for l in labs}
    nullable = 'NONE' in kinds or any(l.nullable for l in labs)
    kinds.discard('NONE')
    if not kinds:
        return Lab('NONE')
    if 'EMPTY' in kinds and len(kinds) > 1:
        kinds.discard('EMPTY')
    if len(kinds) != 1:
        return UNKNOWN
    k = next(iter(kinds))
    sel = set()
    origins = set()
    for l in labs:
        if l.kind == k:
            sel |= l.sel
            origins.add(l.origin)
    return Lab(k, sel, origins.pop() if len(origins) == 1 else None, nullable)


def plural(l: Lab, filtered=False) -> Lab:
    k = PLURAL.get(l.kind)
    if k is None:
        return UNKNOWN
    return Lab(k, set(l.sel) | ({'FILTERED'} if filtered else set()), l.origin)


def full_selection(l: Lab) -> Optional[str]:
    """None when the SRC* label ranges over exactly 'the given tasks and all their descendants', else what is wrong"""
    if 'FILTERED' in l.sel:
        return "the selection is filtered / built conditionally: some of the given tasks or their descendants are left out"
    if 'ROOTS' not in l.sel:
        return "the given root tasks themselves are not part of the selection"
    if 'DESC' not in l.sel:
        if 'CHILD' in l.sel:
            return "only the direct children of the roots are selected: deeper descendants are not copied"
        return "the descendants (all_children) of the given roots are not part of the selection"
    return None


def strip_seq_wrappers(e: ast.AST) -> Tuple[ast.AST, List[str]]:
    """list(x)/tuple(x)/iter(x) are transparent; sorted/reversed/set/[::-1] are reported as order destroying wrappers"""
    bad = []
    while True:
        if isinstance(e, ast.Call) and isinstance(e.func, ast.Name) and e.args:
            if e.func.id in ('list', 'tuple', 'iter') and len(e.args) == 1 and not e.keywords:
                e = e.args[0]
                continue
            if e.func.id in ('sorted', 'reversed', 'set', 'frozenset'):
                bad.append(e.func.id)
                e = e.args[0]
                continue
        if isinstance(e, ast.Subscript) and isinstance(e.slice, ast.Slice) and e.slice.step is not None:
            bad.append('[::step]')
            e = e.value
            continue
        return e, bad


def _loop_as_comprehension(loop: ast.For, acc: str):
    """symbolic execution of the body of `for v in X:` that appends at most once per iteration to the list `acc`:
    straight-line assignments to body locals, if / elif / else, `continue`, `acc.append(E)`.  Every path that appends gives
    (path condition, E) with the body locals substituted  ->  [E1 if c1 else E2 if c2 ... for v in X if c1 or c2 ...];  None when the
    body does anything else"""
    import copy as _copy
    from sa.flow import subst
    if not isinstance(loop.target, ast.Name) or loop.orelse:
        return None
    v = loop.target.id

    def const(e):
        """tests that are constant inside the loop: <loop variable> is [not] None (elements of a task list are never None)"""
        m = match(f"{v} is not None", e)
        if m is not None:
            return True
        m = match(f"{v} is None", e)
        if m is not None:
            return False
        if isinstance(e, ast.BoolOp):
            vals = [const(x) for x in e.values]
            if isinstance(e.op, ast.And):
                if any(x is False for x in vals):
                    return False
                if all(x is True for x in vals):
                    return True
            else:
                if any(x is True for x in vals):
                    return True
                if all(x is False for x in vals):
                    return False
        if isinstance(e, ast.UnaryOp) and isinstance(e.op, ast.Not):
            c = const(e.operand)
            return None if c is None else not c
        return None

    def simplify(e):
        if isinstance(e, ast.BoolOp):
            vals = [simplify(x) for x in e.values]
            keep = [x for x in vals if const(x) is None]
            if const(e) is None and keep and len(keep) < len(vals):
                return keep[0] if len(keep) == 1 else ast.BoolOp(op=e.op, values=keep)
        return e
    done = []          # (conds, appended or None)

    def run(stmts, env, conds, appended):
        """-> list of (env, conds, appended) of the paths that fall through, or None on an unsupported statement"""
        paths = [(env, conds, appended)]
        for st in stmts:
            nxt = []
            for env, conds, appended in paths:
                if isinstance(st, ast.Expr) and isinstance(st.value, ast.Constant) or isinstance(st, ast.Pass):
                    nxt.append((env, conds, appended))
                elif isinstance(st, ast.Continue):
                    done.append((conds, appended))
                elif isinstance(st, (ast.Assign, ast.AnnAssign)) and st.value is not None:
                    tg = st.targets if isinstance(st, ast.Assign) else [st.target]
                    if len(tg) != 1 or not isinstance(tg[0], ast.Name) or tg[0].id in (acc, v):
                        return None
                    e2 = dict(env)
                    e2[tg[0].id] = subst(_copy.deepcopy(st.value), env)
                    nxt.append((e2, conds, appended))
                elif isinstance(st, ast.Expr) and isinstance(st.value, ast.Call) and match(f"{acc}.append($e)", st.value):
                    if appended is not None:
                        return None
                    nxt.append((env, conds, subst(_copy.deepcopy(st.value.args[0]), env)))
                elif isinstance(st, ast.If):
                    t = simplify(subst(_copy.deepcopy(st.test), env))
                    c = const(t)
                    if c is not False:
                        r = run(st.body, env, conds + ([] if c is True else [(t, True)]), appended)
                        if r is None:
                            return None
                        nxt += r
                    if c is not True:
                        r = run(st.orelse, env, conds + ([] if c is False else [(t, False)]), appended)
                        if r is None:
                            return None
                        nxt += r
                else:
                    return None
            paths = nxt
        return paths
    rest = run(loop.body, {}, [], None)
    if rest is None:
        return None
    allp = done + [(c, a) for _, c, a in rest]
    app = [(c, a) for c, a in allp if a is not None]
    if not app or len(allp) > 16:
        return None
    names = {n.id for c, a in app for z in [a] + [t for t, _ in c] for n in ast.walk(z) if isinstance(n, ast.Name)}
    if acc in names:
        return None

    def conj(c):
        parts = [t if p else ast.UnaryOp(op=ast.Not(), operand=t) for t, p in c]
        if not parts:
            return ast.Constant(value=True)
        return parts[0] if len(parts) == 1 else ast.BoolOp(op=ast.And(), values=parts)
    elt = _copy.deepcopy(app[-1][1])
    for c, a in reversed(app[:-1]):
        elt = ast.IfExp(test=_copy.deepcopy(conj(c)), body=_copy.deepcopy(a), orelse=elt)
    ifs = []
    if len(app) < len(allp):                       # some path appends nothing: the others are the filter
        cs = [_copy.deepcopy(conj(c)) for c, _ in app]
        ifs = [cs[0] if len(cs) == 1 else ast.BoolOp(op=ast.Or(), values=cs)]
    comp = ast.ListComp(elt=elt, generators=[ast.comprehension(target=_copy.deepcopy(loop.target), iter=_copy.deepcopy(loop.iter),
                                                              ifs=ifs, is_async=0)])
    return ast.fix_missing_locations(comp)


class Labeller:
    def __init__(self, ctx, func: Func, mapvar: Optional[str] = None, params: Optional[Dict[str, Lab]] = None):
        self.ctx, self.prog, self.f = ctx, ctx.prog, func
        self.flow = flow_of(func)
        self.cfg = self.flow.cfg
        self.ex = Expander(ctx.prog, func, ctx.typer)
        self.mapvar = mapvar
        self.params = params or {}
        self._busy = set()
        self._fold = None
        self.depth = 0
        # local containers that are filled in place (append / extend / += ...) must stay names: their unique `x = []`
        # definition says nothing about their content
        self.mutated = set()
        for n in walk_no_nested(func.node):
            if isinstance(n, ast.Call) and isinstance(n.func, ast.Attribute) and isinstance(n.func.value, ast.Name) \
                    and n.func.attr in MUTATORS:
                self.mutated.add(n.func.value.id)
            elif isinstance(n, ast.AugAssign) and isinstance(n.target, ast.Name):
                self.mutated.add(n.target.id)
            elif isinstance(n, (ast.Assign, ast.Delete)):
                for t in n.targets:
                    if isinstance(t, ast.Subscript) and isinstance(t.value, ast.Name):
                        self.mutated.add(t.value.id)

    # ---------------------------------------------------------------- expansion
    def node(self, e):
        return self.cfg.node_of(e) or self.flow.node_of_expr(e)

    def expand(self, e: ast.AST, at=None) -> ast.AST:
        if at is None:
            at = self.node(e)
        return self.ex.expand(e, at, stop=self.mutated | ({self.mapvar} if self.mapvar else set()))

    def expand_acc(self, e: ast.AST, at=None) -> ast.AST:
        """expand(); a local list that is only filled by one accumulate loop and read after it (`acc = []; for v in X: acc.append(E)`)
        is replaced by the equivalent comprehension `[E for v in X]` (Expander / facts.accumulated_list)"""
        if at is None:
            at = self.node(e)
        x = self.expand(e, at)
        if isinstance(x, ast.Name) and x.id in self.mutated and x.id != self.mapvar:
            y = self.ex.expand(x, at, stop=(self.mutated - {x.id}) | ({self.mapvar} if self.mapvar else set()))
            if not isinstance(y, ast.Name):
                return y
            y = self._block_accumulator(x.id, at)
            if y is not None:
                return self.expand(y, at)
        return x

    def _block_accumulator(self, name: str, at) -> Optional[ast.AST]:
        """accumulator that lives inside one statement block (typically a loop body, where the engine cannot expand it):
               name = []                         (same block as the reading statement, before it)
               for v in X: [if c: [continue]] name.append(E)
               ... name ...                      (read at `at`, after the loop, same block)
        and `name` is mentioned nowhere else in the function -> `[E for v in X if c]`"""
        stmt = getattr(at, 'ast', None)
        if stmt is None:
            return None
        block = None
        for n in ast.walk(self.f.node):
            for fld in ('body', 'orelse', 'finalbody'):
                b = getattr(n, fld, None)
                if isinstance(b, list) and any(x is stmt for x in b):
                    block = b
        if block is None:
            return None
        i_use = [i for i, x in enumerate(block) if x is stmt][0]
        init = loop = None
        for x in block[:i_use]:
            tg = x.targets if isinstance(x, ast.Assign) else ([x.target] if isinstance(x, ast.AnnAssign) and x.value is not None else [])
            if len(tg) == 1 and isinstance(tg[0], ast.Name) and tg[0].id == name:
                if init is not None or loop is not None:
                    return None
                if not (isinstance(x.value, ast.List) and not x.value.elts or match("list()", x.value)):
                    return None
                init = x
            elif isinstance(x, ast.For) and any(isinstance(y, ast.Name) and y.id == name for y in ast.walk(x)):
                if init is None or loop is not None:
                    return None
                loop = x
            elif any(isinstance(y, ast.Name) and y.id == name for y in ast.walk(x)):
                return None
        if init is None or loop is None or loop.orelse or not isinstance(loop.target, ast.Name):
            return None
        # every mention of the name: the init, inside the loop exactly one append, and reads after the loop in this block
        mentions = [y for y in ast.walk(self.f.node) if isinstance(y, ast.Name) and y.id == name]
        inside = [y for y in ast.walk(loop) if isinstance(y, ast.Name) and y.id == name]
        after = [y for x in block[i_use:] for y in ast.walk(x) if isinstance(y, ast.Name) and y.id == name]
        if len(mentions) != 1 + len(inside) + len(after) or any(not isinstance(y.ctx, ast.Load) for y in after):
            return None
        sym = _loop_as_comprehension(loop, name)
        if sym is not None:
            ast.copy_location(sym, init)
            ast.fix_missing_locations(sym)
            return sym
        if len(inside) > 1:
            # for v in X:  if A: name.append(E1)  elif B: name.append(E2) [...]   ->   [E1 if A else E2 for v in X if A or B]
            import copy as _copy
            body = [b for b in loop.body if not (isinstance(b, ast.Expr) and isinstance(b.value, ast.Constant))]
            if len(body) != 1 or not isinstance(body[0], ast.If):
                return None
            branches, node, tail = [], body[0], None
            while True:
                bb = [b for b in node.body if not (isinstance(b, ast.Expr) and isinstance(b.value, ast.Constant))]
                if len(bb) != 1 or not (isinstance(bb[0], ast.Expr) and isinstance(bb[0].value, ast.Call) and
                                        match(f"{name}.append($e)", bb[0].value)):
                    return None
                branches.append((node.test, bb[0].value.args[0]))
                if len(node.orelse) == 1 and isinstance(node.orelse[0], ast.If):
                    node = node.orelse[0]
                    continue
                if node.orelse:
                    oe = [b for b in node.orelse if not (isinstance(b, ast.Expr) and isinstance(b.value, ast.Constant))]
                    if len(oe) != 1 or not (isinstance(oe[0], ast.Expr) and isinstance(oe[0].value, ast.Call) and
                                            match(f"{name}.append($e)", oe[0].value)):
                        return None
                    tail = oe[0].value.args[0]
                break
            if len(inside) != len(branches) + (1 if tail is not None else 0) or len(branches) < 2 and tail is None:
                return None
            used = {y.id for t_, e_ in branches for z in (t_, e_) for y in ast.walk(z) if isinstance(y, ast.Name)}
            body_defs = {d.var for d in self.flow.defs if d.node is not None and d.stmt is not loop and
                         any(x is d.stmt for x in ast.walk(loop)) and d.var != loop.target.id}
            if body_defs & used:
                return None
            alts = branches if tail is not None else branches[:-1]
            elt = _copy.deepcopy(tail if tail is not None else branches[-1][1])
            for t_, e_ in reversed(alts):
                elt = ast.IfExp(test=_copy.deepcopy(t_), body=_copy.deepcopy(e_), orelse=elt)
            ifs = [] if tail is not None else [ast.BoolOp(op=ast.Or(), values=[_copy.deepcopy(t_) for t_, _ in branches])]
            comp = ast.ListComp(elt=elt, generators=[ast.comprehension(target=_copy.deepcopy(loop.target), iter=_copy.deepcopy(loop.iter),
                                                                      ifs=ifs, is_async=0)])
            ast.copy_location(comp, init)
            ast.fix_missing_locations(comp)
            return comp
        for x in block[i_use:]:
            for y in ast.walk(x):
                if isinstance(y, ast.Call) and isinstance(y.func, ast.Attribute) and isinstance(y.func.value, ast.Name) and \
                        y.func.value.id == name and y.func.attr in MUTATORS:
                    return None
        cfg = self.cfg
        app = None
        for y in ast.walk(loop):
            if isinstance(y, ast.Expr) and isinstance(y.value, ast.Call) and match(f"{name}.append($e)", y.value):
                app = y
        if app is None:
            return None
        an, hn = cfg.node_of(app), cfg.node_of(loop)
        if an is None or hn is None or [fo for fo in cfg.enclosing_fors(an) if fo is not loop] != list(cfg.enclosing_fors(hn)):
            return None                      # append sits in a nested loop
        outer = {(id(t), p) for t, p in cfg.conditions(hn)}
        ifs = []
        for t, pol in cfg.conditions(an):
            if (id(t), pol) in outer:
                continue
            ifs.append(t if pol else ast.UnaryOp(op=ast.Not(), operand=t))
        # locals defined inside the loop body cannot be carried into the comprehension
        body_defs = {d.var for d in self.flow.defs if d.node is not None and d.stmt is not loop and
                     any(x is d.stmt for x in ast.walk(loop)) and d.var != loop.target.id}
        used = {y.id for z in [app.value.args[0]] + ifs for y in ast.walk(z) if isinstance(y, ast.Name)}
        if body_defs & used:
            return None
        import copy as _copy
        comp = ast.ListComp(elt=_copy.deepcopy(app.value.args[0]),
                            generators=[ast.comprehension(target=_copy.deepcopy(loop.target), iter=_copy.deepcopy(loop.iter),
                                                          ifs=[_copy.deepcopy(c) for c in ifs], is_async=0)])
        ast.copy_location(comp, init)
        ast.fix_missing_locations(comp)
        return comp

    def label(self, e: ast.AST, at=None, env=None) -> Lab:
        """label of an original (statement level) expression of the function"""
        if at is None:
            at = self.node(e)
        return self.lab(self.expand(e, at), at, env or {})

    def short(self, node: ast.AST, skip: str = None) -> str:
        """source text of an (expanded) expression with expanded local definitions folded back into their names"""
        if self._fold is None:
            self._fold = []
            for d in self.flow.defs:
                if d.kind == 'assign' and d.value is not None and '.' not in d.var and len(self.flow.defs_of(d.var)) == 1 and \
                        not isinstance(d.value, (ast.Name, ast.Constant)):
                    for t in {src(d.value), src(self.expand(d.value, d.node))}:
                        if len(t) > len(d.var) + 4:
                            self._fold.append((t, d.var))
            self._fold.sort(key=lambda p: -len(p[0]))
        t = src(node) if isinstance(node, ast.AST) else str(node)
        for long, name in self._fold:
            if name != skip:
                t = t.replace(long, name)
        return t

    def is_map(self, e: ast.AST) -> bool:
        return isinstance(e, ast.Name) and self.mapvar is not None and (e.id == self.mapvar or e.id in self.map_aliases)

    @property
    def map_aliases(self) -> set:
        """locals defined exactly once as `alias = <clone map>` and never mutated through the alias: the same dict"""
        a = getattr(self, '_aliases', None)
        if a is None:
            a = set()
            if self.mapvar:
                for d in self.flow.defs:
                    if d.kind == 'assign' and isinstance(d.value, ast.Name) and d.value.id == self.mapvar and '.' not in d.var \
                            and d.var != self.mapvar and len(self.flow.defs_of(d.var)) == 1 and d.var not in self.mutated \
                            and not (d.node is not None and self.cfg.enclosing_loops(d.node)):
                        a.add(d.var)
            self._aliases = a
        return a

    # ---------------------------------------------------------------- names
    def _name(self, name: str, at) -> Lab:
        key = (name, at.id if at is not None else None)
        if key in self._busy:
            return UNKNOWN
        self._busy.add(key)
        try:
            ds = self.flow.reaching(name, at) if at is not None else []
            if not ds:
                ds = self.flow.defs_of(name)
            if not ds:
                return UNKNOWN
            labs = []
            for d in ds:
                cond = bool(d.node is not None and self.cfg.conditions(d.node))
                if d.kind == 'param':
                    labs.append(self.params.get(name, UNKNOWN))
                elif d.kind == 'assign' and d.value is not None:
                    labs.append(self.lab(self.expand(d.value, d.node), d.node, {}))
                elif d.kind == 'for':
                    env = {}
                    self.bind(d.stmt.target, self.lab(self.expand(d.stmt.iter, d.node), d.node, {}), env)
                    labs.append(env.get(name, UNKNOWN))
                elif d.kind == 'aug' and isinstance(d.stmt.op, ast.Add):
                    l = self.lab(self.expand(d.stmt.value, d.node), d.node, {})
                    labs.append(Lab(l.kind, set(l.sel) | ({'FILTERED'} if cond else set()), l.origin))
                else:
                    labs.append(UNKNOWN)
            lab = join(labs)
            if lab.kind in ('EMPTY', 'SRCS', 'LINKS', 'MAPPEDS', 'CLONES', 'SRCMAP'):
                lab = self._with_insertions(name, lab)
            return lab
        finally:
            self._busy.discard(key)

    def _with_insertions(self, name: str, lab: Lab) -> Lab:
        labs = [lab]
        for n in walk_no_nested(self.f.node):
            if isinstance(n, ast.Call) and isinstance(n.func, ast.Attribute) and isinstance(n.func.value, ast.Name) \
                    and n.func.value.id == name:
                m = n.func.attr
                at = self.flow.node_of_expr(n)
                cond = bool(at is not None and self.cfg.conditions(at))
                if m in ('append', 'insert', 'add') and n.args:
                    l = plural(self.lab(self.expand(n.args[-1], at), at, {}), cond)
                elif m in ('extend', 'update') and n.args:
                    l = self.lab(self.expand(n.args[0], at), at, {})
                    l = Lab(l.kind, set(l.sel) | ({'FILTERED'} if cond else set()), l.origin)
                elif m in ('remove', 'pop', 'clear', '__delitem__'):
                    l = Lab(lab.kind, {'FILTERED'})
                else:
                    continue
                labs.append(l)
            elif isinstance(n, ast.Assign) and len(n.targets) == 1 and isinstance(n.targets[0], ast.Subscript) and \
                    isinstance(n.targets[0].value, ast.Name) and n.targets[0].value.id == name:
                at = self.cfg.node_of(n)
                cond = bool(at is not None and self.cfg.conditions(at))
                k = self.lab(self.expand(n.targets[0].slice, at), at, {})
                v = self.lab(self.expand(n.value, at), at, {})
                if k.kind == 'SRCKEY' and k.origin is not None and k.origin == v.origin and v.kind in ('SRC', 'NEWCLONE'):
                    labs.append(Lab('SRCMAP' if v.kind == 'SRC' else 'NEWMAP', set(v.sel) | ({'FILTERED'} if cond else set())))
                else:
                    labs.append(UNKNOWN)
        return join(labs)

    # ---------------------------------------------------------------- binders
    def bind(self, target: ast.AST, it: Lab, env: dict):
        if isinstance(target, ast.Name):
            env[target.id] = self.elem(it, target.id)
            return
        if isinstance(target, ast.Tuple) and len(target.elts) == 2 and all(isinstance(x, ast.Name) for x in target.elts) \
                and it.kind == 'SRCITEMS':
            k, v = target.elts
            env[k.id] = Lab('SRCKEY', it.sel, v.id)
            env[v.id] = Lab('SRC', it.sel, v.id)
            return
        for x in ast.walk(target):
            if isinstance(x, ast.Name):
                env[x.id] = UNKNOWN

    @staticmethod
    def elem(it: Lab, name: str) -> Lab:
        k = SINGULAR.get(it.kind)
        if k is None:
            return UNKNOWN
        if k == 'SRC':
            return Lab('SRC', it.sel, name)
        if k == 'SRCKEY':
            return Lab('SRCKEY', it.sel, '#' + name)
        return Lab(k, it.sel, it.origin)

    # ---------------------------------------------------------------- expressions (already expanded)
    def lab(self, e: ast.AST, at, env: dict) -> Lab:
        if e is None:
            return UNKNOWN
        if isinstance(e, ast.Constant):
            return Lab('NONE') if e.value is None else Lab('VAL')
        if isinstance(e, ast.JoinedStr):
            return Lab('VAL')
        if isinstance(e, ast.Name):
            if e.id in env:
                return env[e.id]
            if e.id == self.f.self_name:
                return Lab('SELF')
            if self.mapvar and (e.id == self.mapvar or e.id in self.map_aliases):
                return Lab('MAP')
            return self._name(e.id, at)
        if isinstance(e, ast.Starred):
            return self.lab(e.value, at, env)
        if isinstance(e, ast.Attribute):
            return self._attr(self.lab(e.value, at, env), unmangle(e.attr), e.attr)
        if isinstance(e, ast.Subscript):
            b = self.lab(e.value, at, env)
            if isinstance(e.slice, ast.Slice):
                return Lab(b.kind, set(b.sel) | {'FILTERED'}, b.origin)
            return self._lookup(b, e.slice, at, env, False)
        if isinstance(e, (ast.List, ast.Tuple, ast.Set)):
            if not e.elts:
                return Lab('EMPTY')
            return join([self.lab(x.value, at, env) if isinstance(x, ast.Starred) else plural(self.lab(x, at, env))
                         for x in e.elts])
        if isinstance(e, ast.Dict):
            return Lab('EMPTY') if not e.keys else UNKNOWN
        if isinstance(e, (ast.ListComp, ast.SetComp, ast.GeneratorExp)):
            env2 = dict(env)
            filt = False
            for g in e.generators:
                self.bind(g.target, self.lab(g.iter, at, env2), env2)
                filt = filt or bool(g.ifs)
            return plural(self.lab(e.elt, at, env2), filt)
        if isinstance(e, ast.DictComp):
            env2 = dict(env)
            filt = False
            for g in e.generators:
                self.bind(g.target, self.lab(g.iter, at, env2), env2)
                filt = filt or bool(g.ifs)
            k, v = self.lab(e.key, at, env2), self.lab(e.value, at, env2)
            if k.kind == 'SRCKEY' and k.origin is not None and k.origin == v.origin:
                sel = set(v.sel) | ({'FILTERED'} if filt else set())
                if v.kind == 'SRC':
                    return Lab('SRCMAP', sel)
                if v.kind == 'NEWCLONE':
                    return Lab('NEWMAP', sel)
            return UNKNOWN
        if isinstance(e, ast.BinOp) and isinstance(e.op, ast.Add):
            return join([self.lab(e.left, at, env), self.lab(e.right, at, env)])
        if isinstance(e, ast.IfExp):
            return join([self.lab(e.body, at, env), self.lab(e.orelse, at, env)])
        if isinstance(e, ast.BoolOp):
            return join([self.lab(v, at, env) for v in e.values])
        if isinstance(e, (ast.Compare, ast.UnaryOp, ast.BinOp)):
            return Lab('VAL')
        if isinstance(e, ast.Call):
            return self._call(e, at, env)
        return UNKNOWN

    def _attr(self, b: Lab, a: str, raw: str) -> Lab:
        if b.kind == 'SRC':
            if a == 'id':
                return Lab('SRCKEY', b.sel, b.origin)
            roots_only = set(b.sel) == {'ROOTS'}
            if a == 'children':
                return Lab('SRCS', {'CHILD'} if roots_only else {'SUB'})
            if a == 'all_children':
                return Lab('SRCS', {'DESC'} if roots_only else {'SUB'})
            if a == 'parent':
                return Lab('LINK', nullable=True)
            if a in LINK_ATTRS:
                return Lab('LINKS')
            return Lab('VAL')
        if b.kind in ('LINK',):
            if a in LINK_ATTRS or a in ('children', 'all_children'):
                return Lab('LINKS')
            if a == 'parent':
                return Lab('LINK', nullable=True)
            return Lab('LINKKEY') if a == 'id' else Lab('VAL')
        if b.kind == 'SELF':
            if a in ('roots', 'tasks'):
                return Lab('MEMBERS')
            if raw == '_WBS__root':
                return Lab('LINK')
            return Lab('VAL')
        if b.kind in ('CLONE', 'MAPPED', 'NEWCLONE', 'FRESHWBS', 'VAL', 'NONE'):
            return Lab('VAL')
        return UNKNOWN

    def _lookup(self, b: Lab, key: ast.AST, at, env, via_get: bool) -> Lab:
        k = self.lab(key, at, env)
        if b.kind in ('MAP', 'NEWMAP'):
            if k.kind == 'SRCKEY':
                return Lab('CLONE', k.sel, k.origin)
            return Lab('MAPPED', origin='link' if k.kind == 'LINKKEY' else None, nullable=via_get)
        if b.kind == 'SRCMAP':
            if k.kind == 'SRCKEY':
                return Lab('SRC', k.sel, k.origin)
            return Lab('SRC', b.sel, None)
        if b.kind in SINGULAR and b.kind != 'SRCMAP':
            return self.elem(b, None) if SINGULAR[b.kind] != 'SRC' else Lab('SRC', b.sel, None)
        return UNKNOWN

    def _call(self, e: ast.Call, at, env) -> Lab:
        fn = e.func
        if isinstance(fn, ast.Attribute):
            name = unmangle(fn.attr)
            b = self.lab(fn.value, at, env)
            if name in ('get', '__getitem__') and e.args:
                return self._lookup(b, e.args[0], at, env, name == 'get')
            if name == 'setdefault' and b.kind == 'MAP':
                return Lab('MAPPED')
            if name == 'values':
                return Lab('SRCS', b.sel) if b.kind == 'SRCMAP' else (Lab('MAPPEDS') if b.kind in ('MAP', 'NEWMAP') else UNKNOWN)
            if name == 'keys':
                return Lab('SRCKEYS', b.sel) if b.kind == 'SRCMAP' else Lab('VAL')
            if name == 'items':
                return Lab('SRCITEMS', b.sel) if b.kind == 'SRCMAP' else UNKNOWN
            if name == 'copy' and b.kind in ('SRCS', 'SRCMAP', 'LINKS', 'EMPTY'):
                return b
            if name == 'clone' and b.kind == 'SRC':
                return Lab('NEWCLONE', b.sel, b.origin)
            if fn.attr == '_WBS__clone_tasks' and b.kind == 'SELF':
                return Lab('CLONES', {'ROOTS'}) if getattr(self, 'clone_tasks_returns', 'map') == 'roots' else Lab('MAP')
            own_cls = isinstance(fn.value, ast.Name) and fn.value.id == self.f.cls
            if (b.kind == 'SELF' or own_cls) and self.f.cls and self.depth < 2 and not e.keywords:
                h = self.prog.find_method(self.f.cls, name)
                if h is not None and h.kind in ('method', 'static') and not any(isinstance(a, ast.Starred) for a in e.args):
                    ps = list(h.params)[1:] if h.kind == 'method' else list(h.params)
                    if len(e.args) <= len(ps):
                        sub = Labeller(self.ctx, h, None, {p: self.lab(a, at, env) for p, a in zip(ps, e.args)})
                        sub.depth = self.depth + 1
                        rets = [r for r in walk_no_nested(h.node) if isinstance(r, ast.Return) and r.value is not None]
                        if rets:
                            return join([sub.label(r.value) for r in rets])
            if b.kind == 'VAL':
                return Lab('VAL')
            return UNKNOWN
        if isinstance(fn, ast.Name):
            if fn.id in ('list', 'tuple', 'iter', 'sorted', 'reversed', 'set', 'frozenset') and e.args:
                return self.lab(e.args[0], at, env)
            if fn.id == '_to_list' and len(e.args) == 1:
                l = self.lab(e.args[0], at, env)
                return plural(l) if l.kind in ('SRC', 'LINK') else l
            if fn.id == 'WBS':
                # keyword arguments other than `tasks` only decorate the hidden root sentinel: still an empty new WBS
                return Lab('FRESHWBS') if not e.args and all(k.arg not in (None, 'tasks') for k in e.keywords) else Lab('WBSARGS')
            if fn.id in ('len', 'str', 'repr', 'int', 'float', 'bool', 'id', 'type', 'isinstance', 'hash'):
                return Lab('VAL')
            if fn.id in ('list', 'dict', 'set') and not e.args:
                return Lab('EMPTY')
        return UNKNOWN


# =====================================================================================================================
# generic attribute copy loops:  for k in X.__dict__.keys(): if not k.startswith('_'): D.__setattr__(k, X.__getattribute__(k))

class CopyLoop:
    def __init__(self, for_node, call, src_expr, dst_expr, key, val_name, value, atoms, header_conds):
        self.for_node, self.call, self.src, self.dst = for_node, call, src_expr, dst_expr
        self.key, self.val_name, self.value = key, val_name, value
        self.atoms = atoms                  # [(atom, polarity)] between the loop header and the store
        self.header_conds = header_conds    # conditions under which the loop itself runs
        self.func = None                    # function that contains the loop (a one-level helper of the asked function or itself)
        self.via = None                     # call of that helper inside the asked function (None: loop is in the function itself)
        self.src_caller, self.dst_caller = src_expr, dst_expr    # src / dst in terms of the asked function

    def on_every_path(self, f: Func) -> bool:
        """the loop runs on every path of f to its normal exit (through the helper call when there is one)"""
        c = cfg_of(self.func)
        if not c.dominates(c.node_of(self.for_node), c.exit):
            return False
        if self.via is None:
            return True
        cf = cfg_of(f)
        n = cf.node_containing(self.via)
        return n is not None and cf.dominates(n, cf.exit) and not cf.enclosing_loops(n)


def _dict_source(it: ast.AST):
    """X.__dict__ / X.__dict__.keys() / vars(X) / vars(X).keys() -> (X, 'keys');  ...items() -> (X, 'items')"""
    it, _ = strip_seq_wrappers(it)
    mode = 'keys'
    if isinstance(it, ast.Call) and isinstance(it.func, ast.Attribute) and it.func.attr in ('keys', 'items') and not it.args:
        mode = it.func.attr
        it = it.func.value
        if isinstance(it, ast.Call) and isinstance(it.func, ast.Name) and it.func.id in ('dict', 'list') and len(it.args) == 1:
            it = it.args[0]
    m = match("$s.__dict__", it) or match("vars($s)", it)
    if m:
        return m['s'], mode
    return None


COPY_WRAPPERS = ("copy.copy($v)", "copy.deepcopy($v)", "copy($v)", "deepcopy($v)")


def _value_copy_wrapper(value: ast.AST) -> Optional[str]:
    """'deepcopy' / 'copy' when the stored value is passed through copy.copy / copy.deepcopy"""
    for p in COPY_WRAPPERS:
        if match(p, value):
            return 'deepcopy' if 'deepcopy' in p else 'copy'
    return None


def _reads_attr(value: ast.AST, src_expr: ast.AST, key: str, val_name: Optional[str]) -> bool:
    for p in COPY_WRAPPERS:
        m = match(p, value)
        if m:
            value = m['v']
            break
    if val_name and isinstance(value, ast.Name) and value.id == val_name:
        return True
    for p in ("$s.__getattribute__($k)", "getattr($s, $k)", "$s.__dict__[$k]", "vars($s)[$k]"):
        m = match(p, value)
        if m and same(m['s'], src_expr) and isinstance(m['k'], ast.Name) and m['k'].id == key:
            return True
    return False


def find_copy_loops(ctx, f: Func, deep: bool = True) -> List[CopyLoop]:
    """copy loops of f and (deep) of helpers called directly by f, the latter with src/dst translated to f's expressions"""
    out = _direct_copy_loops(ctx, f)
    for l in out:
        l.func = f
    if not deep:
        return out
    for ci in ctx.cg.calls_in(f):
        if ci.kind != 'call' or len(ci.targets) != 1 or not isinstance(ci.node, ast.Call):
            continue
        callee, call = ci.targets[0], ci.node
        if callee is f or isinstance(callee.node, ast.Lambda):
            continue
        params = list(callee.params)
        args = list(call.args)
        if callee.kind == 'method' and isinstance(call.func, ast.Attribute):
            args = [call.func.value] + args
        if any(isinstance(a, ast.Starred) for a in args) or len(args) > len(params):
            continue
        bind = dict(zip(params, args))
        for k in call.keywords:
            if k.arg:
                bind[k.arg] = k.value
        for l in _direct_copy_loops(ctx, callee):
            if isinstance(l.src, ast.Name) and l.src.id in bind and isinstance(l.dst, ast.Name) and l.dst.id in bind:
                l.func, l.via = callee, call
                l.src_caller, l.dst_caller = bind[l.src.id], bind[l.dst.id]
                out.append(l)
    return out


def copy_idiom_in_reach(ctx, f: Func, exclude=()) -> bool:
    """some function reachable from f (other than those in `exclude`) touches __dict__ / vars() / setattr: an attribute copy
    may be written in an idiom or at a call depth the recogniser does not follow"""
    eff = Effects(ctx.prog, ctx.typer, ctx.cg)
    for h in eff.reach([f]):
        if h.qual in exclude:
            continue
        for n in walk_no_nested(h.node):
            if isinstance(n, ast.Attribute) and n.attr == '__dict__' or isinstance(n, ast.Name) and n.id in ('vars', 'setattr'):
                return True
    return False


def _names_helper(ctx, f: Func, it: ast.AST):
    """`for k in X.<helper>()` where the helper only yields / returns attribute names of its receiver:
         def helper(self): for k in self.__dict__.keys(): if not k.startswith('_'): yield k
         def helper(self): return [k for k in self.__dict__ if not k.startswith('_')]
    -> (X, [(filter atom over the name KEY, polarity)], helper key name) or None"""
    it, _ = strip_seq_wrappers(it)
    if not (isinstance(it, ast.Call) and isinstance(it.func, ast.Attribute) and not it.args and not it.keywords):
        return None
    ci = [c for c in ctx.cg.calls_in(f) if c.node is it or (isinstance(c.node, ast.Call) and same(c.node, it))]
    targets = ci[0].targets if ci else []
    if len(targets) != 1 or targets[0].kind != 'method':
        return None
    h = targets[0]
    hs = h.self_name
    body = [s for s in h.body if not (isinstance(s, ast.Expr) and isinstance(s.value, ast.Constant))]
    ex = Expander(ctx.prog, h, ctx.typer)
    cfg = cfg_of(h)
    if len(body) == 1 and isinstance(body[0], ast.Return) and isinstance(body[0].value, (ast.ListComp, ast.GeneratorExp)):
        comp = ex.expand(body[0].value, cfg.node_of(body[0]))
        if len(comp.generators) != 1 or not isinstance(comp.generators[0].target, ast.Name):
            return None
        g = comp.generators[0]
        ds = _dict_source(g.iter)
        if ds is None or ds[1] != 'keys' or not (isinstance(ds[0], ast.Name) and ds[0].id == hs):
            return None
        if not (isinstance(comp.elt, ast.Name) and comp.elt.id == g.target.id):
            return None
        atoms = []
        for c in g.ifs:
            atoms += facts.split_conj(c, True)
        return it.func.value, atoms, g.target.id
    if len(body) == 1 and isinstance(body[0], ast.For) and isinstance(body[0].target, ast.Name):
        fo = body[0]
        k = fo.target.id
        ds = _dict_source(ex.expand(fo.iter, cfg.node_of(fo)))
        if ds is None or ds[1] != 'keys' or not (isinstance(ds[0], ast.Name) and ds[0].id == hs):
            return None
        yields = [n for n in walk_no_nested(h.node) if isinstance(n, (ast.Yield, ast.YieldFrom))]
        rets = [n for n in walk_no_nested(h.node) if isinstance(n, ast.Return) and n.value is not None]
        if len(yields) != 1 or rets or not (isinstance(yields[0], ast.Yield) and isinstance(yields[0].value, ast.Name)
                                            and yields[0].value.id == k):
            return None
        stores = [n for n in walk_no_nested(h.node) if isinstance(n, (ast.Assign, ast.AugAssign, ast.Delete))]
        if stores:
            return None
        atoms = []
        for t, pol in cfg.conditions(cfg.node_containing(yields[0])):
            atoms += facts.split_conj(ex.expand(t, cfg.node_containing(t), stop={k}), pol)
        return it.func.value, atoms, k
    return None


def _rename(atom: ast.AST, old: str, new: str) -> ast.AST:
    from sa.flow import subst
    return subst(atom, {old: ast.Name(id=new, ctx=ast.Load())}) if old != new else atom


def _pairs_helper(ctx, f: Func, it: ast.AST):
    """`for name, value in X.<helper>()` where the helper is a generator method that only yields (k, V(k)) pairs over the
    attribute names of its receiver:
         def helper(self): for k in self.__dict__.keys(): if not k.startswith('_'): yield k, self.__getattribute__(k)
    -> the equivalent generator expression `((k, V) for k in X.__dict__.keys() if ..)` in terms of X, else None"""
    it, _ = strip_seq_wrappers(it)
    if not (isinstance(it, ast.Call) and isinstance(it.func, ast.Attribute) and not it.args and not it.keywords):
        return None
    ci = [c for c in ctx.cg.calls_in(f) if c.node is it or (isinstance(c.node, ast.Call) and same(c.node, it))]
    targets = ci[0].targets if ci else []
    if len(targets) != 1 or targets[0].kind != 'method' or len(targets[0].params) != 1:
        return None
    h = targets[0]
    body = [s for s in h.body if not (isinstance(s, ast.Expr) and isinstance(s.value, ast.Constant))]
    if len(body) != 1 or not isinstance(body[0], ast.For) or body[0].orelse:
        return None
    fo = body[0]
    yields = [n for n in walk_no_nested(h.node) if isinstance(n, (ast.Yield, ast.YieldFrom))]
    rets = [n for n in walk_no_nested(h.node) if isinstance(n, ast.Return) and n.value is not None]
    stores = [n for n in walk_no_nested(h.node) if isinstance(n, (ast.Assign, ast.AugAssign, ast.Delete))]
    if len(yields) != 1 or rets or stores or not isinstance(yields[0], ast.Yield) or not isinstance(yields[0].value, ast.Tuple) \
            or len(yields[0].value.elts) != 2:
        return None
    cfg = cfg_of(h)
    yn = cfg.node_containing(yields[0])
    if yn is None or len(cfg.enclosing_fors(yn)) != 1:
        return None
    from sa.flow import subst
    import copy as _copy
    recv = {h.self_name: it.func.value}
    ifs = []
    for t, pol in cfg.conditions(yn):
        t2 = subst(_copy.deepcopy(t), recv)
        ifs.append(t2 if pol else ast.UnaryOp(op=ast.Not(), operand=t2))
    gen = ast.GeneratorExp(elt=subst(_copy.deepcopy(yields[0].value), recv),
                           generators=[ast.comprehension(target=_copy.deepcopy(fo.target), iter=subst(_copy.deepcopy(fo.iter), recv),
                                                         ifs=ifs, is_async=0)])
    ast.fix_missing_locations(gen)
    return gen


def _pairs_source(it: ast.AST, target: ast.AST):
    """`((k, V) for k in X.__dict__[.keys()] if C)` (generator or list) consumed by `for name, value in ...`
    -> (X, [(filter atom over `name`, True)], V with k renamed to `name`) or None"""
    it, _ = strip_seq_wrappers(it)
    if isinstance(it, ast.Call) and isinstance(it.func, ast.Attribute) and it.func.attr == 'items' and not it.args and \
            isinstance(it.func.value, ast.DictComp):
        # {k: V for k in X.__dict__ if C}.items()  ==  ((k, V) for k in X.__dict__ if C)
        dc = it.func.value
        it = ast.GeneratorExp(elt=ast.Tuple(elts=[dc.key, dc.value], ctx=ast.Load()), generators=dc.generators)
    if not (isinstance(it, (ast.GeneratorExp, ast.ListComp)) and len(it.generators) == 1 and isinstance(it.elt, ast.Tuple)
            and len(it.elt.elts) == 2 and isinstance(target, ast.Tuple) and len(target.elts) == 2
            and all(isinstance(x, ast.Name) for x in target.elts)):
        return None
    g = it.generators[0]
    ds = _dict_source(g.iter)
    if ds is None:
        return None
    name = target.elts[0].id
    if ds[1] == 'keys' and isinstance(g.target, ast.Name):
        k, v0 = g.target.id, None
    elif ds[1] == 'items' and isinstance(g.target, ast.Tuple) and len(g.target.elts) == 2 and \
            all(isinstance(x, ast.Name) for x in g.target.elts):
        k, v0 = g.target.elts[0].id, g.target.elts[1].id
    else:
        return None
    if not (isinstance(it.elt.elts[0], ast.Name) and it.elt.elts[0].id == k):
        return None
    value = it.elt.elts[1]
    if v0 is not None:
        from sa.flow import subst
        value = subst(value, {v0: ast.Call(func=ast.Name(id='getattr', ctx=ast.Load()),
                                           args=[ds[0], ast.Name(id=k, ctx=ast.Load())], keywords=[])})
    atoms = []
    for c in g.ifs:
        if v0 is not None:
            from sa.flow import subst
            c = subst(c, {v0: ast.Call(func=ast.Name(id='getattr', ctx=ast.Load()), args=[ds[0], ast.Name(id=k, ctx=ast.Load())],
                                       keywords=[])})
        atoms += [(_rename(a, k, name), p) for a, p in facts.split_conj(c, True)]
    return ds[0], atoms, _rename(value, k, name)


def _direct_copy_loops(ctx, f: Func) -> List[CopyLoop]:
    """every dynamic attribute store `D.<k> = ...` inside a loop whose variable k ranges over the attribute names of X"""
    cfg = cfg_of(f)
    ex = Expander(ctx.prog, f, ctx.typer)
    out = []
    for fo in walk_no_nested(f.node):
        if not isinstance(fo, ast.For):
            continue
        hn = cfg.node_of(fo)
        it_x = ex.expand(fo.iter, hn)
        ds = _dict_source(it_x)
        helper_atoms = []
        pair_value = None
        if ds is None and isinstance(fo.target, ast.Name):
            # for name in [k for k in X.__dict__[.keys()] if C(k)]: the filters of the name list are filters of the loop
            nc, _ = strip_seq_wrappers(it_x)
            if isinstance(nc, (ast.ListComp, ast.GeneratorExp)) and len(nc.generators) == 1 and isinstance(nc.generators[0].target, ast.Name) \
                    and isinstance(nc.elt, ast.Name) and nc.elt.id == nc.generators[0].target.id:
                ids_ = _dict_source(nc.generators[0].iter)
                if ids_ is not None and ids_[1] == 'keys':
                    ds = ids_
                    for c_ in nc.generators[0].ifs:
                        helper_atoms += [(_rename(a_, nc.elt.id, fo.target.id), p_) for a_, p_ in facts.split_conj(c_, True)]
        if ds is None:
            pr = _pairs_source(it_x, fo.target)
            if pr is not None:
                # for name, value in ((k, <V(k)>) for k in X.__dict__ if <filters>): the loop of a (name, value) pair stream
                ds = (pr[0], 'items')
                helper_atoms, pair_value = pr[1], pr[2]
        if ds is None:
            gen = _pairs_helper(ctx, f, fo.iter)
            pr = _pairs_source(gen, fo.target) if gen is not None else None
            if pr is not None:
                ds = (pr[0], 'items')
                helper_atoms, pair_value = pr[1], pr[2]
        if ds is None:
            nh = _names_helper(ctx, f, fo.iter)
            if nh is None or not isinstance(fo.target, ast.Name):
                continue
            ds = (nh[0], 'keys')
            helper_atoms = [(_rename(a, nh[2], fo.target.id), p) for a, p in nh[1]]
        src_expr, mode = ds
        key = val_name = None
        if mode == 'keys' and isinstance(fo.target, ast.Name):
            key = fo.target.id
        elif mode == 'items' and isinstance(fo.target, ast.Tuple) and len(fo.target.elts) == 2 and \
                all(isinstance(x, ast.Name) for x in fo.target.elts):
            key, val_name = fo.target.elts[0].id, fo.target.elts[1].id
        if key is None:
            continue
        header = list(cfg.conditions(hn))
        for st in fo.body:
            for n in ast.walk(st):
                dst = value = None
                if isinstance(n, ast.Call):
                    m = match("$d.__setattr__($k, $v)", n) or match("setattr($d, $k, $v)", n)
                    if m and isinstance(m['k'], ast.Name) and m['k'].id == key:
                        dst, value = m['d'], m['v']
                elif isinstance(n, ast.Assign) and len(n.targets) == 1:
                    m = match("$d.__dict__[$k]", n.targets[0])
                    if m and isinstance(m['k'], ast.Name) and m['k'].id == key:
                        dst, value = m['d'], n.value
                if dst is None:
                    continue
                cn = cfg.node_containing(n) or cfg.node_of(n)
                atoms = []
                atoms = list(helper_atoms)
                hdr_ids = {(id(t), p) for t, p in header}
                stop = {key, val_name or key} | {x.id for x in ast.walk(dst) if isinstance(x, ast.Name)}
                value = ex.expand(value, cn, stop=stop)
                vn = val_name
                if pair_value is not None:
                    from sa.flow import subst
                    value = subst(value, {val_name: pair_value})        # what the pair stream delivers as the value
                    vn = None
                for t, pol in [c for c in cfg.conditions(cn) if (id(c[0]), c[1]) not in hdr_ids]:
                    atoms += facts.split_conj(ex.expand(t, cfg.node_containing(t), stop=stop), pol)
                out.append(CopyLoop(fo, n, src_expr, dst, key, vn, value, atoms, header))
    return out


def classify_copy_filter(cl: CopyLoop, atom: ast.AST, pol: bool) -> Tuple[str, str]:
    """-> (class, text) with class in public | inverted | prefix | value | dst | name | unknown"""
    k = cl.key
    for p, eq in ((f"{k}.startswith($p)", True), (f"{k}[0] == $p", True), (f"{k}[:1] == $p", True),
                  (f"{k}[0] != $p", False), (f"{k}[:1] != $p", False)):
        m = match(p, atom)
        if m:
            if not (isinstance(m['p'], ast.Constant) and m['p'].value == '_'):
                return 'prefix', f"the name filter tests the prefix {src(m['p'])} instead of '_': mangled private state " \
                                 f"(_Task__parent, _WBS__root ...) is copied by reference or public names are dropped"
            private = (pol == eq)
            return ('inverted', "only names starting with '_' are copied: private state is shared with the source and public "
                                "attributes are dropped") if private else ('public', '')
    names = {n.id for n in ast.walk(atom) if isinstance(n, ast.Name)}
    mentions_value = (cl.val_name in names if cl.val_name else False) or any(
        _reads_attr(n, cl.src, k, cl.val_name) for n in ast.walk(atom) if isinstance(n, (ast.Call, ast.Subscript)))
    if mentions_value:
        return 'value', f"filter `{'' if pol else 'not '}{src(atom)}` depends on the attribute value: values such as 0, False, '' or " \
                        f"None are not copied"
    for p in (f"{k} in $d.__dict__", f"{k} not in $d.__dict__", f"hasattr($d, {k})", f"{k} in vars($d)", f"{k} not in vars($d)",
              f"{k} in dir($d)", f"{k} not in dir($d)"):
        m = match(p, atom)
        if m:
            return 'dst', f"filter `{'' if pol else 'not '}{src(atom)}` skips attributes according to what `{src(m['d'])}` already " \
                          f"holds: attributes initialised by the constructor default (e.g. min_start) keep the default"
    if isinstance(atom, ast.Compare) and len(atom.ops) == 1 and isinstance(atom.left, ast.Name) and atom.left.id == k and \
            isinstance(atom.ops[0], (ast.In, ast.NotIn, ast.Eq, ast.NotEq)):
        if isinstance(atom.ops[0], (ast.NotIn, ast.NotEq)) == pol:
            return 'name', f"filter `{'' if pol else 'not '}{src(atom)}` leaves out attributes by name: a public attribute of the " \
                           f"source that happens to have one of these names is not copied (on a WBS these are ordinary attribute names)"
        return 'name', f"filter `{'' if pol else 'not '}{src(atom)}` selects attributes by a name list: other public / custom " \
                       f"attributes are not copied"
    return 'unknown', ''


def _excluded_names(atom: ast.AST, pol: bool, key: str):
    """`k not in ('a', 'b')` / `k != 'a'` (exclusion by a literal name list) -> the names, else None"""
    if isinstance(atom, ast.Compare) and len(atom.ops) == 1 and isinstance(atom.left, ast.Name) and atom.left.id == key:
        op, c = atom.ops[0], atom.comparators[0]
        if isinstance(op, (ast.NotIn, ast.In)) and isinstance(op, ast.NotIn) == pol and isinstance(c, (ast.Tuple, ast.List, ast.Set)) and \
                c.elts and all(isinstance(x, ast.Constant) and isinstance(x.value, str) for x in c.elts):
            return {x.value for x in c.elts}
        if isinstance(op, (ast.NotEq, ast.Eq)) and isinstance(op, ast.NotEq) == pol and isinstance(c, ast.Constant) and isinstance(c.value, str):
            return {c.value}
    return None


def report_copy_loop(o, f: Func, cl: CopyLoop, what: str, property_names=frozenset()) -> bool:
    """verdict for one loop against: every public attribute is copied, nothing else, only filter not k.startswith('_').
    Returns True when the loop is a faithful generic copy."""
    ok = True
    f = cl.func or f
    if cl.header_conds:
        o.undecided(f, cl.for_node, cl.for_node.iter, f"the {what} copy loop runs only under a condition the rule does not interpret")
        ok = False
    if not _reads_attr(cl.value, cl.src, cl.key, cl.val_name):
        o.undecided(f, cl.call, cl.call, f"the {what} copy loop stores `{src(cl.value)}`, not the source's value of the same attribute")
        ok = False
    elif _value_copy_wrapper(cl.value):
        w = _value_copy_wrapper(cl.value)
        o.refute(f, cl.call, cl.value, f"the {what} copy loop stores `{src(cl.value)[:70]}`: a {w}() of the attribute value, not the value "
                                       f"itself. The copy must carry the SAME attribute values: values compared by identity (resource "
                                       f"objects, references to other tasks) differ on the copy" +
                                       ("; a Task-valued attribute makes deepcopy duplicate that task's whole graph and owner"
                                        if w == 'deepcopy' else "; a shallow copy of a Task shares its relation lists"))
        ok = False
    public = False
    neutral = set()
    for atom, pol in cl.atoms:
        c, text = classify_copy_filter(cl, atom, pol)
        ex_names = _excluded_names(atom, pol, cl.key) if c == 'name' else None
        if ex_names is not None and ex_names <= set(property_names):
            neutral.add(id(atom))        # excludes only names that are properties of the class: those are never in __dict__
            continue
        if c == 'public':
            public = True
        elif c == 'unknown':
            o.undecided(f, cl.call, atom, f"unrecognised filter in the {what} copy loop")
            ok = False
        else:
            o.refute(f, cl.call, atom, f"{what} copy loop: {text}; the only filter allowed is `not k.startswith('_')`")
            ok = False
    cl.covers = public and not cl.header_conds and all(classify_copy_filter(cl, a, p)[0] == 'public' or id(a) in neutral
                                                       for a, p in cl.atoms)
    if not public and ok:
        o.refute(f, cl.call, cl.call, f"{what} copy loop has no `not k.startswith('_')` filter: private state (relations, owner, "
                                      f"root sentinel) is copied by reference, so the copy shares it with the source")
        ok = False
    return ok


# =====================================================================================================================
# Task.clone

# spec side (property text): a Task copy is made "without relations" and reports the NEW owner
RELATION_STATE = {'_Task__parent', '_Task__children', '_Task__predecessors', '_Task__successors'}
OWNER_STATE = {'_Task__wbs'}
RELATION_PARAMS = {'parent', 'children', 'predecessors', 'successors'}


def _idempotent_cast(v, vp):
    """`bool(vp)` / `int(vp)` / `float(vp)` / `str(vp)` (also `vp` itself, `None if vp is None else T(vp)`, `T(vp) if vp is not None
    else None`): storing the stored value again gives the same value"""
    if isinstance(v, ast.Name):
        return v.id == vp
    if isinstance(v, ast.IfExp):
        m = match(f"{vp} is None", v.test) or match(f"{vp} is not None", v.test)
        if m is None:
            return False
        return all((isinstance(b, ast.Constant) and b.value is None) or _idempotent_cast(b, vp) for b in (v.body, v.orelse))
    return isinstance(v, ast.Call) and isinstance(v.func, ast.Name) and v.func.id in ('bool', 'int', 'float', 'str') and \
        len(v.args) == 1 and not v.keywords and isinstance(v.args[0], ast.Name) and v.args[0].id == vp


def _self_stores(f):
    """(stmt, attr, value) for `self.<attr> = value` in f"""
    out = []
    for st, tgt, val in facts.attr_stores(f):
        if isinstance(tgt.value, ast.Name) and tgt.value.id == f.self_name:
            out.append((st, tgt.attr, val))
    return out


def _ctor_binding(call: ast.Call, init):
    """constructor parameter -> argument expression (None if *args / **kwargs make it undecidable)"""
    params = init.params[1:]
    bind = {}
    for i, a in enumerate(call.args):
        if isinstance(a, ast.Starred) or i >= len(params):
            return None
        bind[params[i]] = a
    for k in call.keywords:
        if k.arg is None:
            return None
        bind[k.arg] = k.value
    return bind


class CloneShape:
    """how Task.clone builds its result: kind 'ctor' (Task(...)), 'shallow' (copy.copy(self)) or None (not recognised)"""

    def __init__(self, kind, node, cvar, pure, impure):
        self.kind, self.node, self.cvar, self.pure, self.impure = kind, node, cvar, pure, impure


def _is_attr_read(e: ast.AST, sn: str) -> bool:
    """e reads ONE attribute of self: self.x | self.__getattribute__(k) | getattr(self, k) | self.__dict__[k] | vars(self)[k]"""
    return bool(match(f"{sn}.__getattribute__($k)", e) or match(f"getattr({sn}, $k)", e) or match(f"{sn}.__dict__[$k]", e)
                or match(f"vars({sn})[$k]", e) or (isinstance(e, ast.Attribute) and isinstance(e.value, ast.Name) and e.value.id == sn
                                                  and e.attr != '__dict__'))


def task_clone_shape(ctx) -> CloneShape:
    prog = ctx.prog
    cl = prog.func('task.Task.clone')
    sn = cl.self_name
    ctors = [n for n in walk_no_nested(cl.node) if isinstance(n, ast.Call) and isinstance(n.func, ast.Name) and n.func.id == 'Task']
    shallow = [n for n in walk_no_nested(cl.node) if isinstance(n, ast.Call) and
               (match(f"copy.copy({sn})", n) or match(f"copy({sn})", n) and 'copy' in cl.module.imports)]
    def _whole_object(n):
        nm = getattr(n.func, 'attr', getattr(n.func, 'id', ''))
        if nm == 'deepcopy':                 # deepcopy(self) builds the clone; deepcopy(<attribute value>) is judged by the copy loop
            return not n.args or any(isinstance(x, ast.Name) and x.id == sn for a in n.args[:1] for x in ast.walk(a)
                                     if not _is_attr_read(a, sn))
        return nm in ('__new__', '__reduce_ex__', '__class__')
    other = [n for n in walk_no_nested(cl.node) if isinstance(n, ast.Call) and _whole_object(n)]
    made = ctors + shallow
    if len(made) != 1 or other:
        return CloneShape(None, made[0] if made else None, None, None, [])
    node = made[0]
    kind = 'ctor' if ctors else 'shallow'
    cvar = None
    for d in flow_of(cl).defs:
        if d.kind == 'assign' and d.value is node:
            cvar = d.var
    rets = [n for n in walk_no_nested(cl.node) if isinstance(n, ast.Return)]
    if not rets or not all(r.value is not None and (r.value is node or (isinstance(r.value, ast.Name) and r.value.id == cvar))
                           for r in rets):
        return CloneShape(None, node, cvar, None, [])
    eff = Effects(prog, ctx.typer, ctx.cg)
    impure = []
    if kind == 'ctor':
        for key in sorted(eff.writes_star(cl)):
            impure.append((cl.node, f"writes {unmangle(key[0])}", f"Task.clone modifies {unmangle(key[0])} of `{key[1]}` "
                                                                   f"({' -> '.join(eff.explain(cl, key))[:160]})"))
    else:
        # the engine cannot know that copy.copy() returns a new object: judge the receivers here
        for w in eff.direct_writes(cl):
            if w.root == 'fresh' or (isinstance(w.recv, ast.Name) and w.recv.id == cvar):
                continue
            impure.append((w.node, w.node, f"`{src(w.node)[:70]}` writes {unmangle(str(w.field))} through `{src(w.recv)[:40] if w.recv is not None else '?'}`"))
        for ci in ctx.cg.calls_in(cl):
            W = set()
            for t in ci.targets:
                W |= eff.writes_star(t)
            if not W or (ci.name or '') in ('__setattr__', 'setattr', '__getattribute__'):
                continue                        # dynamic stores are direct writes, judged above
            n = ci.node
            recv = n.value if isinstance(n, ast.Attribute) else (n.func.value if isinstance(n, ast.Call) and isinstance(n.func, ast.Attribute) else None)
            if isinstance(recv, ast.Name) and recv.id == cvar:
                impure.append((n, n, f"`{src(n)[:70]}` runs a state-changing {ci.kind} on the shallow copy while it still shares the "
                                     f"source's relation lists"))
            else:
                impure.append((n, n, f"`{src(n)[:70]}` changes state outside the copy"))
    return CloneShape(kind, node, cvar, not impure, impure)


def _derived_from_other_param(init: Func, feed: str, store_stmt, init_params):
    """the value of constructor parameter `feed` that reaches `self.<field> = feed` may come from an assignment whose right side
    reads ANOTHER constructor parameter (`if estimate is None and spent is not None: estimate = spent`)
    -> (that assignment, {other parameters}) or None"""
    flow = flow_of(init)
    cfg = cfg_of(init)
    n = cfg.node_of(store_stmt)
    if n is None:
        return None
    for d in flow.reaching(feed, n):
        if d.kind == 'assign' and d.value is not None:
            others = {x.id for x in ast.walk(d.value) if isinstance(x, ast.Name) and x.id in init_params and x.id != feed}
            if others:
                return d.stmt, others
    return None


def _memoised_name_list(ctx, o, cl: Func, sn: str) -> bool:
    """`for k in NAMES: copy.__setattr__(k, getattr(self, k))` where NAMES comes (on some path) from state kept on the CLASS
    (`Task.__x.get(..)`, `type(self).__x`, `self.__class__.__x`): the attribute names of one task are reused for all others.
    Returns True when this shape was found (and refuted)"""
    flow = flow_of(cl)
    cfg = cfg_of(cl)
    found = False
    for fo in walk_no_nested(cl.node):
        if not (isinstance(fo, ast.For) and isinstance(fo.target, ast.Name) and isinstance(fo.iter, ast.Name)):
            continue
        k = fo.target.id
        copies = False
        for n in ast.walk(fo):
            m = match("$d.__setattr__($k, $v)", n) or match("setattr($d, $k, $v)", n) if isinstance(n, ast.Call) else None
            if m and isinstance(m['k'], ast.Name) and m['k'].id == k:
                v = m['v']
                if _reads_attr(v, ast.Name(id=sn, ctx=ast.Load()), k, None) or match(f"getattr({sn}, {k}, $dflt)", v):
                    copies = True
        if not copies:
            continue
        for d in flow.reaching(fo.iter.id, cfg.node_of(fo)):
            if d.kind != 'assign' or d.value is None:
                continue
            for a in ast.walk(d.value):
                if isinstance(a, ast.Attribute) and (
                        (isinstance(a.value, ast.Name) and a.value.id in ctx.prog.classes) or match(f"type({sn})", a.value)
                        or match(f"{sn}.__class__", a.value)) and a.attr != '__dict__':
                    o.refute(cl, d.stmt, f"{unmangle(a.attr)} [attribute names memoised on the class]",
                             f"Task.clone copies the attributes named in `{fo.iter.id}`, which `{src(d.stmt)[:70]}` takes from "
                             f"`{src(a)}` - state kept on the CLASS and shared by all tasks: the names collected from one task are "
                             f"reused for every other one, so a custom attribute the first cloned task did not have is never copied; "
                             f"the names must come from THIS task's own __dict__ on every call")
                    found = True
                    break
            if found:
                break
    return found


def _is_mutable_init(v: ast.AST) -> bool:
    return isinstance(v, (ast.List, ast.Dict, ast.Set, ast.ListComp, ast.DictComp, ast.SetComp)) or \
        (isinstance(v, ast.Call) and isinstance(v.func, ast.Name) and v.func.id in ('list', 'dict', 'set'))


def _fields_shallow(ctx, o, shape: CloneShape):
    """Task.clone built on copy.copy(self): every field VALUE is carried over, but every mutable field OBJECT and the
    parent / owner references are shared with the source until they are re-initialised on the copy"""
    prog = ctx.prog
    init = prog.func('task.Task.__init__')
    cl = prog.func('task.Task.clone')
    cfg = cfg_of(cl)
    cvar = shape.cvar
    o.site(cl, shape.node, f"{cvar} = copy.copy(self): all field values and custom attributes are carried over")
    stores = _self_stores(init)
    resets = {}
    for st, tgt, val in facts.attr_stores(cl):
        if isinstance(tgt.value, ast.Name) and tgt.value.id == cvar:
            resets.setdefault(tgt.attr, []).append((st, val))
    docs = {id(s.value) for s in walk_no_nested(cl.node) if isinstance(s, ast.Expr) and isinstance(s.value, ast.Constant)}
    strings = {n.value for n in walk_no_nested(cl.node) if isinstance(n, ast.Constant) and isinstance(n.value, str)
               and id(n) not in docs}
    dyn = any(isinstance(n, ast.Attribute) and n.attr == '__dict__' for n in walk_no_nested(cl.node))
    seen = set()
    for st0, attr, val0 in stores:
        if attr in seen:
            continue
        seen.add(attr)
        inits = [v for _, a, v in stores if a == attr]
        state = attr in RELATION_STATE or attr in OWNER_STATE
        if not state and not any(_is_mutable_init(v) for v in inits):
            if attr.startswith('_Task__') or (prog.find_setter('Task', attr) is None and prog.find_getter('Task', attr) is None):
                o.site(cl, shape.node, f"{unmangle(attr)}: value carried over by the shallow copy")
            continue
        rs = resets.get(attr, [])
        good = [(st, v) for st, v in rs if any(same(v, i) for i in inits) and not cfg.conditions(cfg.node_of(st))
                and cfg.dominates(cfg.node_of(st), cfg.exit)]
        if good:
            o.site(cl, good[0][0], f"{unmangle(attr)} re-initialised on the copy ({src(good[0][1])})")
        elif rs:
            o.undecided(cl, rs[0][0], rs[0][0], f"{unmangle(attr)} of the shallow copy is reset conditionally or to a value other than the "
                                                f"constructor's initial value")
        elif dyn or any(unmangle(attr).lstrip('_') in s for s in strings):
            o.undecided(cl, shape.node, unmangle(attr), f"cannot see how {unmangle(attr)} of the shallow copy is re-initialised")
        else:
            what = ("the copy and the source share ONE list object: later changes to the copy's links show on the source (and vice versa)"
                    if any(_is_mutable_init(v) for v in inits) else
                    "the copy still refers to the source's " + ("owner: it does not report the new WBS" if attr in OWNER_STATE else "parent"))
            o.refute(cl, shape.node, f"{unmangle(attr)} not reset", f"Task.clone is a shallow copy (`{src(shape.node)}`) and never "
                                                                    f"re-initialises {unmangle(attr)} on the copy: {what}")
    if shape.pure:
        o.site(cl, cl.node, "Task.clone writes only to the task it constructs")
    for node, construct, msg in shape.impure:
        o.refute(cl, node, construct, f"{msg}: cloning must leave the source unchanged")


def _fields(ctx, o):
    prog = ctx.prog
    init = prog.func('task.Task.__init__')
    cl = prog.func('task.Task.clone')
    task = prog.cls('Task')
    sn = cl.self_name
    ex = Expander(prog, cl, ctx.typer)
    cfg = cfg_of(cl)
    init_params = set(init.params[1:])

    # ---- the constructor call of the copy
    ctors = [n for n in walk_no_nested(cl.node) if isinstance(n, ast.Call) and isinstance(n.func, ast.Name) and n.func.id == 'Task']
    rets = [n for n in walk_no_nested(cl.node) if isinstance(n, ast.Return)]
    shape = task_clone_shape(ctx)
    if shape.kind == 'shallow':
        _fields_shallow(ctx, o, shape)
        return
    if len(ctors) != 1 or shape.kind is None and shape.node is None:
        o.undecided(cl, cl.node, 'Task(...)', f"Task.clone contains {len(ctors)} `Task(...)` constructor calls (expected one) and is not "
                                              f"a `copy.copy(self)` either")
        return
    ctor = ctors[0]
    bind = _ctor_binding(ctor, init)
    if bind is None:
        o.undecided(cl, ctor, ctor, "constructor call of the copy uses *args / **kwargs")
        return
    cvar = None
    for d in ex.flow.defs:
        if d.kind == 'assign' and d.value is ctor:
            cvar = d.var
    if not rets or not all(r.value is not None and (r.value is ctor or (isinstance(r.value, ast.Name) and r.value.id == cvar))
                           for r in rets):
        o.undecided(cl, cl.node, 'return', "Task.clone does not return the task it constructed")
        return
    for p in sorted(RELATION_PARAMS & set(bind)):
        o.refute(cl, ctor, f"{p}=", f"Task.clone passes `{p}={src(bind[p])[:40]}` to the constructor: the copy is wired into the "
                                    f"source's relations (and the source's lists are modified); relations are rebuilt by the WBS")

    def untuple(e):
        """`a, b = self.x, self.y` (tuple unpacking is not followed by the Expander): the element bound to the name"""
        if isinstance(e, ast.Name):
            ds = ex.flow.defs_of(e.id)
            if len(ds) == 1 and isinstance(ds[0].stmt, ast.Assign) and len(ds[0].stmt.targets) == 1 and ds[0].node is not None \
                    and not cfg.conditions(ds[0].node) and not cfg.enclosing_loops(ds[0].node):
                tg, val = ds[0].stmt.targets[0], ds[0].stmt.value
                if isinstance(tg, ast.Tuple) and isinstance(val, ast.Tuple) and len(tg.elts) == len(val.elts):
                    for t, v in zip(tg.elts, val.elts):
                        if isinstance(t, ast.Name) and t.id == e.id and not any(isinstance(x, ast.Starred) for x in tg.elts + val.elts):
                            return ex.expand(v, ds[0].node)
        return e

    def reads(expr, field=None, attr=None):
        """does expr read self.<field> (private, directly or through a single-return getter) / self.<attr>"""
        e = untuple(ex.expand(expr, cfg.node_containing(ctor)))
        m = match(f"{sn}.$a", e)
        if not m:
            return False
        a = m['a']
        if attr is not None:
            return a == attr
        if a == field:
            return True
        g = prog.find_getter('Task', unmangle(a))
        if g is not None:
            body = [s for s in g.body if not (isinstance(s, ast.Expr) and isinstance(s.value, ast.Constant))]
            return len(body) == 1 and isinstance(body[0], ast.Return) and match(f"{g.self_name}.{field}", body[0].value) is not None
        return False

    def arg_passed(p_):
        return bind.get(p_) is not None

    # ---- private data fields of __init__
    stores = _self_stores(init)
    private = []
    for st, attr, val in stores:
        if attr.startswith('_Task__') and attr not in private:
            private.append(attr)
    for fld in private:
        if fld in RELATION_STATE or fld in OWNER_STATE:
            continue
        feed = feed_st = feed_inexact = None
        for st, attr, val in stores:
            if attr == fld and isinstance(val, ast.Name) and val.id in init_params:
                feed, feed_st = val.id, st
        if feed is None:
            for pname, setter in task.setters.items():
                vp = setter.params[1] if len(setter.params) > 1 else None
                if any(isinstance(v, ast.Name) and v.id == vp for _, _, v in facts.attr_stores(setter, fld)):
                    for st, attr, val in stores:
                        if attr == pname and isinstance(val, ast.Name) and val.id in init_params:
                            feed, feed_st = val.id, st
        if feed is None:
            # Round 11 (C04-r112): the setter stores a value DERIVED from its argument (`self.__f = bool(value)`): the field is still
            # fed by the constructor parameter.  Handing the getter's value back is the identity only for an idempotent conversion.
            for pname, setter in task.setters.items():
                vp = setter.params[1] if len(setter.params) > 1 else None
                svals = [v for _, _, v in facts.attr_stores(setter, fld)]
                if vp and any(isinstance(x, ast.Name) and x.id == vp for v in svals for x in ast.walk(v)):
                    for st, attr, val in stores:
                        if attr == pname and isinstance(val, ast.Name) and val.id in init_params and feed is None:
                            feed, feed_st = val.id, st
                            if not all(_idempotent_cast(v, vp) for v in svals):
                                feed_inexact = svals[0]
        if feed is not None and arg_passed(feed):
            derived = _derived_from_other_param(init, feed, feed_st, init_params)
            if derived:
                dstmt, others = derived
                o.refute(init, dstmt, f"{feed} <- {', '.join(sorted(others))} [constructor argument not stored as given]",
                         f"Task.__init__ replaces its `{feed}` argument by a value derived from `{', '.join(sorted(others))}` before storing it "
                         f"(`{src(dstmt)[:70]}`), and Task.clone builds every copy through `Task(..., {feed}=self.{feed}, ...)`: a source "
                         f"state the constructor rewrites (reachable through the setters) is not reproduced on the copy - the copy's "
                         f"{unmangle(fld)} differs from the source's")
                continue
        if feed is None:
            o.undecided(init, init.node, unmangle(fld), f"private field {unmangle(fld)} of Task.__init__ is neither relation/owner state "
                                                        f"nor fed by a constructor parameter: cannot decide whether Task.clone must copy it")
            continue
        arg = bind.get(feed)
        if arg is None:
            o.refute(cl, ctor, unmangle(fld), f"private data field {unmangle(fld)} (constructor parameter `{feed}`) is not passed to "
                                              f"`Task(...)` in Task.clone and the generic loop skips names starting with '_': every copy "
                                              f"gets the default instead of the source's value")
        elif feed_inexact is not None:
            o.undecided(cl, ctor, f"{feed}={src(arg)}", f"the `{feed}` setter stores `{src(feed_inexact)[:60]}` into {unmangle(fld)}: cannot show "
                                                        f"that handing `{src(arg)}` to the constructor reproduces the source's value")
        elif reads(arg, field=fld):
            o.site(cl, ctor, f"{unmangle(fld)} -> {feed}={src(arg)}")
        else:
            e = untuple(ex.expand(arg, cfg.node_containing(ctor)))
            if match(f"{sn}.$a", e):
                o.refute(cl, ctor, f"{feed}={src(arg)}", f"constructor parameter `{feed}` (field {unmangle(fld)}) receives `{src(arg)}`, "
                                                         f"which reads a different field of the source")
            else:
                o.undecided(cl, ctor, f"{feed}={src(arg)}", f"cannot show that `{src(arg)}` is the source's value of {unmangle(fld)}")

    # ---- generic loop over the public instance attributes
    loops = [l for l in find_copy_loops(ctx, cl) if isinstance(l.src_caller, ast.Name) and l.src_caller.id == sn]
    loop_ok = False
    for l in loops:
        fine = report_copy_loop(o, cl, l, "Task attribute", set(task.getters) | set(task.setters))
        if fine and not (isinstance(l.dst_caller, ast.Name) and l.dst_caller.id == cvar):
            o.undecided(cl, l.call, l.call, "the attribute copy loop does not write to the task returned by clone")
            fine = False
        if fine and not l.on_every_path(cl):
            o.undecided(l.func, l.for_node, l.for_node.iter, "the attribute copy loop is not on every path to the return")
            fine = False
        if fine:
            loop_ok = True
            o.site(l.func, l.for_node, "for k in self.__dict__: if not k.startswith('_'): copy.__setattr__(k, self.__getattribute__(k))")
    if not loops and _memoised_name_list(ctx, o, cl, sn):
        pass
    elif not loops:
        if copy_idiom_in_reach(ctx, cl, {'task.Task.__init__'}):
            o.undecided(cl, cl.node, 'attribute copy', "Task.clone copies attributes in an idiom the rule does not recognise")
        else:
            o.refute(cl, cl.node, 'no attribute copy loop', "Task.clone has no loop over self.__dict__: custom attributes (kwargs / "
                                                            "set later) are never copied")

    # ---- every public instance attribute assigned in __init__ is covered
    public = []
    for st, attr, val in stores:
        if not attr.startswith('_') and attr not in public and prog.find_setter('Task', attr) is None \
                and prog.find_getter('Task', attr) is None:
            public.append((attr, val))
    seen = set()
    for attr, val in public:
        if attr in seen:
            continue
        seen.add(attr)
        feed = val.id if isinstance(val, ast.Name) and val.id in init_params else None
        arg = bind.get(feed) if feed else None
        if arg is not None and reads(arg, attr=attr):
            o.site(cl, ctor, f"{attr}: constructor argument {feed}={src(arg)}")
        elif loop_ok:
            o.site(loops[0].func, loops[0].for_node, f"{attr}: public instance attribute, covered by the generic loop")
        elif any(getattr(l, 'covers', False) for l in loops):
            pass            # the loop reaches every public name; what is wrong with it (the stored value) is already reported
        elif loops:
            o.refute(cl, ctor, attr, f"public field `{attr}` of Task.__init__ is neither passed to the constructor in Task.clone nor "
                                     f"copied by an unfiltered loop over the public attributes: the copy keeps the constructor default")
        # no loop at all: already refuted above

    # ---- purity of Task.clone
    eff = Effects(prog, ctx.typer, ctx.cg)
    ws = eff.writes_star(cl)
    if ws:
        for key in sorted(ws):
            if key[1] == 'unknown':
                o.undecided(cl, cl.node, f"writes {unmangle(key[0])}", f"Task.clone reaches a write of {unmangle(key[0])} through an object the "
                                                                       f"effect analysis cannot trace back to the copy or the source "
                                                                       f"({' -> '.join(eff.explain(cl, key))[:160]})")
                continue
            o.refute(cl, cl.node, f"writes {unmangle(key[0])}", f"Task.clone modifies {unmangle(key[0])} of `{key[1]}` "
                                                                f"({' -> '.join(eff.explain(cl, key))[:160]}): cloning must leave the source unchanged")
    else:
        o.site(cl, cl.node, "Task.clone writes only to the task it constructs")



# =====================================================================================================================
# the clone path of WBS

PROVENANCE_ALL = ('map', 'externals', 'receivers', 'relations', 'assembly', 'wbs-attrs', 'no-source-writes')
READ_BUILTINS = {'len', 'print', 'str', 'repr', 'sorted', 'list', 'dict', 'bool', 'id', 'type', 'format', 'tuple', 'set',
                 'any', 'all', 'sum', 'min', 'max'}
MAP_READS = {'get', 'keys', 'values', 'items', 'copy', '__contains__', '__len__', '__getitem__'}
MAP_DESTRUCTIVE = {'update', 'pop', 'popitem', 'clear', '__setitem__', '__delitem__'}


def _parent_map(root: ast.AST) -> Dict[int, ast.AST]:
    par = {}
    for n in ast.walk(root):
        for ch in ast.iter_child_nodes(n):
            par[id(ch)] = n
    return par


def _rels_in_iter(e: ast.AST):
    """relations of one task read by a loop iterable: T.R | list(T.R) | A + B | chain(A, B) | [*A, *B] -> [(T, R)]"""
    e, bad = strip_seq_wrappers(e)
    if isinstance(e, ast.Attribute):
        return [(e.value, e.attr)]
    if isinstance(e, ast.BinOp) and isinstance(e.op, ast.Add):
        a, b = _rels_in_iter(e.left), _rels_in_iter(e.right)
        return a + b if a is not None and b is not None else None
    if isinstance(e, ast.Call) and getattr(e.func, 'id', getattr(e.func, 'attr', '')) == 'chain':
        out = []
        for a in e.args:
            r = _rels_in_iter(a)
            if r is None:
                return None
            out += r
        return out
    if isinstance(e, (ast.List, ast.Tuple)) and e.elts and all(isinstance(x, ast.Starred) for x in e.elts):
        out = []
        for x in e.elts:
            r = _rels_in_iter(x.value)
            if r is None:
                return None
            out += r
        return out
    return None


SEL_VARS = ('sel_predecessors', 'sel_successors')       # "has a predecessor / successor INSIDE the selection"


def _rel_envs():
    """all consistent truth assignments: the four relations of a source task non-empty or not, plus whether it has a selected
    predecessor / successor (which implies that the relation is non-empty)"""
    import itertools
    keys = ALL_RELS + SEL_VARS
    for bits in itertools.product((False, True), repeat=len(keys)):
        env = dict(zip(keys, bits))
        if (env['sel_predecessors'] and not env['predecessors']) or (env['sel_successors'] and not env['successors']):
            continue
        yield env


def _is_sequence_test(test: ast.AST, p: str, pol: bool) -> bool:
    """(test, pol) says that parameter p is a list / tuple (re-iterable): isinstance(p, list) | isinstance(p, (list, tuple)) |
    type(p) is list | type(p) in (list, tuple), or the negation with pol False"""
    if isinstance(test, ast.UnaryOp) and isinstance(test.op, ast.Not):
        return _is_sequence_test(test.operand, p, not pol)
    SEQ = {'list', 'tuple', '_ImmutableTaskList', '_ChildrenList'}

    def seq_types(t):
        if isinstance(t, ast.Name):
            return t.id in SEQ
        return isinstance(t, ast.Tuple) and bool(t.elts) and all(isinstance(x, ast.Name) and x.id in SEQ for x in t.elts)
    m = match(f"isinstance({p}, $t)", test) or match(f"type({p}) is $t", test) or match(f"type({p}) in $t", test) or \
        match(f"type({p}) == $t", test)
    if m and seq_types(m['t']):
        return pol
    m = match(f"type({p}) is not $t", test) or match(f"type({p}) not in $t", test) or match(f"type({p}) != $t", test)
    if m and seq_types(m['t']):
        return not pol
    return False


def _map_local(g: Func) -> Optional[str]:
    """the local of g that is created as the clone map: `m = {<k>: <x>.clone() for ...}` or `m = {}` filled by
    `m[<k>] = <x>.clone()`; None unless there is exactly one such local"""
    def has_clone(e):
        return any(isinstance(x, ast.Call) and isinstance(x.func, ast.Attribute) and x.func.attr == 'clone' for x in ast.walk(e))
    cands = set()
    for n in walk_no_nested(g.node):
        if isinstance(n, (ast.Assign, ast.AnnAssign)) and n.value is not None:
            tg = n.targets if isinstance(n, ast.Assign) else [n.target]
            if len(tg) == 1 and isinstance(tg[0], ast.Name) and isinstance(n.value, ast.DictComp) and has_clone(n.value.value):
                cands.add(tg[0].id)
            elif len(tg) == 1 and isinstance(tg[0], ast.Subscript) and isinstance(tg[0].value, ast.Name) and has_clone(n.value):
                cands.add(tg[0].value.id)
    return cands.pop() if len(cands) == 1 else None


class CloneAnalysis:
    """all clauses are evaluated once per program; facts are replayed into whichever obligation asks for them"""

    def __init__(self, ctx):
        self.ctx, self.prog = ctx, ctx.prog
        p = ctx.prog
        self.g = p.func('wbs.WBS.__clone')
        # `merged`: __clone_tasks no longer exists and __clone builds the clone map itself (the method was inlined, or moved to a
        # module level helper that the normaliser spliced back into __clone): one function plays both roles
        self.merged = not p.has_func('wbs.WBS.__clone_tasks') and _map_local(self.g) is not None
        self.f = self.g if self.merged else p.func('wbs.WBS.__clone_tasks')
        self.e_clone = p.func('wbs.WBS.clone')
        self.e_subtree = p.func('wbs.WBS.subtree')
        self.eff = Effects(p, ctx.typer, ctx.cg)
        self.facts: List[tuple] = []
        self._text: Dict[int, str] = {}
        self.clause = None
        # ---- map variable of __clone_tasks = the returned name
        self.mapvar = None
        self.gmap = self.gcall = None
        self.ret_roots = False
        gp = self.g.params
        if self.merged:
            self.mapvar = self.gmap = _map_local(self.g)
            self.L = self.G = Labeller(ctx, self.g, self.mapvar, {gp[1]: Lab('SRCS', {'ROOTS'})} if len(gp) > 1 else {})
        else:
            rets = [n for n in walk_no_nested(self.f.node) if isinstance(n, ast.Return)]
            names = {r.value.id for r in rets if isinstance(r.value, ast.Name)}
            ml = _map_local(self.f)
            if rets and len(names) == 1 and all(isinstance(r.value, ast.Name) for r in rets) and (ml is None or ml in names):
                self.mapvar = names.pop()
            elif rets and ml is not None:
                # __clone_tasks keeps the clone map to itself and returns an expression over it (the roots of the copy)
                self.mapvar = ml
                self.ret_roots = True
            fp = self.f.params
            self.L = Labeller(ctx, self.f, self.mapvar, {fp[1]: Lab('SRCS', {'ROOTS'})} if len(fp) > 1 else {})
            # ---- map variable of __clone = the name assigned from self.__clone_tasks(..)
            for d in flow_of(self.g).defs:
                if d.kind == 'assign' and d.value is not None and match("self._WBS__clone_tasks($*a)", d.value):
                    self.gmap, self.gcall = d.var, d.value
            if self.gcall is None and self.ret_roots:
                cs = facts.calls_named(self.g, '__clone_tasks')
                if len(cs) == 1 and match("self._WBS__clone_tasks($*a)", cs[0]):
                    self.gcall = cs[0]
            self.G = Labeller(ctx, self.g, None if self.ret_roots else self.gmap,
                              {gp[1]: Lab('SRCS', {'ROOTS'})} if len(gp) > 1 else {})
            self.G.clone_tasks_returns = 'roots' if self.ret_roots else 'map'
        # early exits of __clone that hand back a bare `WBS()`:  if <cond>: return WBS()
        self.early = []
        for stt in self.g.node.body:
            if isinstance(stt, ast.If) and not stt.orelse:
                body = [b for b in stt.body if not (isinstance(b, ast.Expr) and isinstance(b.value, ast.Constant))]
                if len(body) == 1 and isinstance(body[0], ast.Return) and body[0].value is not None:
                    rv = body[0].value
                    if match("WBS()", rv):
                        self.early.append((stt, body[0]))
                    elif isinstance(rv, ast.Name):
                        ds = flow_of(self.g).defs_of(rv.id)
                        if len(ds) == 1 and ds[0].kind == 'assign' and ds[0].value is not None and match("WBS()", ds[0].value):
                            self.early.append((stt, body[0]))         # `new = WBS(); ...; if <cond>: return new`
        self._early_ids = {id(i.test) for i, _ in self.early}
        self._pending_cov: List[tuple] = []
        self.registrations: List[tuple] = []        # (function, construct node, [relations scanned]) non-clones put into the clone map
        self._identity_rels: Dict[str, ast.AST] = {}    # dependency relations rebuilt as `x if <x outside> else map[x.id]` (fully ok)
        self._identity_seen = set()                 # ... element recognised (filter possibly wrong)
        self._outside_by_id: List[tuple] = []       # identity-form elements that still resolve an outside task by id
        self._lookup_rels: Dict[str, ast.AST] = {}  # dependency relations rebuilt as `map[x.id] ... if x.id in map`
        self.staging_calls: List[tuple] = []        # (call, helper, accumulator) of helpers that build the outside-task dict
        self.setdefaults: List[tuple] = []          # (function, labeller, call)
        self.helpers: List[tuple] = []              # (helper function, labeller) that receive the clone map
        for name in ('map', 'externals', 'relations', 'outside_identity', 'assembly', 'wbs_attrs', 'no_source_writes', 'once', 'fields'):
            self.clause = name.replace('_', '-')
            getattr(self, '_' + name)()

    # ---------------------------------------------------------------- recording
    def site(self, f, node, note, clause=None):
        self.facts.append((clause or self.clause, 'site', f, node, None, note))

    def refute(self, f, node, construct, msg, clause=None):
        self.facts.append((clause or self.clause, 'refute', f, node, construct, msg))

    def undecided(self, f, node, construct, msg, clause=None):
        self.facts.append((clause or self.clause, 'undecided', f, node, construct, msg))

    def replay(self, o, clauses):
        for c, kind, f, node, construct, text in self.facts:
            if c in clauses:
                if kind == 'site':
                    o.site(f, node, f"[{c}] {text}")
                elif kind == 'refute':
                    o.refute(f, node, construct, text)
                else:
                    o.undecided(f, node, construct, text)

    def _gconds(self, node):
        """path condition of a node of __clone without the negated guards of the early `return WBS()` exits (self.early)"""
        return [c for c in self.G.cfg.conditions(node) if id(c[0]) not in self._early_ids] if node is not None else []

    def _need_map(self) -> bool:
        if self.mapvar is None:
            self.undecided(self.f, self.f.node, '__clone_tasks', "__clone_tasks does not return one named dict: the clone map "
                                                                  "cannot be identified")
            return False
        return True

    def _atoms(self, L: Labeller, node) -> List[Tuple[ast.AST, bool]]:
        out = []
        for t, pol in L.cfg.conditions(node):
            ea = facts.split_conj(L.expand(t, L.cfg.node_containing(t)), pol)
            oa = facts.split_conj(t, pol)
            for i, (a, p) in enumerate(ea):
                self._text[id(a)] = src(oa[i][0]) if len(oa) == len(ea) else src(a)
            out += ea
        return out

    def text(self, atom) -> str:
        """source text of a path-condition atom as written (before expansion)"""
        return self._text.get(id(atom)) or src(atom)

    # ---------------------------------------------------------------- (a) creation of the map
    def _map(self):
        if not self._need_map():
            return
        f, L = self.f, self.L
        ds = L.flow.defs_of(self.mapvar)
        if len(ds) != 1 or ds[0].kind != 'assign' or ds[0].value is None:
            self.undecided(f, f.node, self.mapvar, "the clone map is (re)bound in more than one statement")
            return
        d = ds[0]
        val = L.expand(d.value, d.node)
        self.creation = None
        if isinstance(val, ast.DictComp) and len(val.generators) == 1 and isinstance(val.generators[0].target, ast.Name):
            g = val.generators[0]
            v, key, cv, stmt, at = g.target.id, val.key, val.value, d.stmt, d.node
            filt = ' and '.join(src(c) for c in g.ifs)
            il = L.lab(g.iter, d.node, {})
            it_txt = L.short(g.iter)
        elif isinstance(val, ast.Dict) and not val.keys or match("dict()", val):
            # statement form:  m = {}; for t in <selection>: m[t.id] = t.clone()
            cands = []
            for n in walk_no_nested(f.node):
                if isinstance(n, ast.Assign) and len(n.targets) == 1 and isinstance(n.targets[0], ast.Subscript) and \
                        L.is_map(n.targets[0].value) and any(isinstance(x, ast.Call) and isinstance(x.func, ast.Attribute)
                                                              and x.func.attr == 'clone' for x in ast.walk(n.value)):
                    cands.append(n)
            if len(cands) != 1:
                self.undecided(f, d.stmt, d.stmt, "the clone map starts empty and is not filled by exactly one `map[t.id] = t.clone()` loop")
                return
            stmt = cands[0]
            at = L.cfg.node_of(stmt)
            fors = L.cfg.enclosing_fors(at)
            items_key = None
            if len(fors) == 1 and isinstance(fors[0].target, ast.Tuple) and len(fors[0].target.elts) == 2 and \
                    all(isinstance(x_, ast.Name) for x_ in fors[0].target.elts) and not L.cfg.enclosing_fors(L.cfg.node_of(fors[0])) and \
                    L.lab(L.expand(fors[0].iter, L.cfg.node_of(fors[0])), L.cfg.node_of(fors[0]), {}).kind == 'SRCITEMS':
                items_key = fors[0].target.elts[0].id      # for task_id, task in <selection by id>.items(): map[task_id] = task.clone()
            elif len(fors) != 1 or not isinstance(fors[0].target, ast.Name) or L.cfg.enclosing_fors(L.cfg.node_of(fors[0])):
                self.undecided(f, stmt, stmt, "`map[t.id] = t.clone()` is not inside exactly one loop over the selection")
                return
            fo = fors[0]
            v = fo.target.elts[1].id if items_key else fo.target.id
            key, cv = L.expand(stmt.targets[0].slice, at), L.expand(stmt.value, at)
            if items_key and isinstance(key, ast.Name) and key.id == items_key:
                key = ast.Attribute(value=ast.Name(id=v, ctx=ast.Load()), attr='id', ctx=ast.Load())   # the key of the item IS the task's id
            conds = [c for c in L.cfg.conditions(at)]
            filt = ' and '.join(facts.cond_texts(conds))
            hn = L.cfg.node_of(fo)
            if L.cfg.conditions(hn) or not L.cfg.dominates(hn, L.cfg.exit):
                self.undecided(f, fo, fo.iter, "the loop filling the clone map does not run on every path")
                return
            il = L.lab(L.expand(fo.iter, hn), hn, {})
            if items_key and il.kind == 'SRCITEMS':
                il = Lab('SRCS', il.sel)
            it_txt = L.short(L.expand(fo.iter, hn))
            self.creation = stmt.targets[0]
        else:
            self.undecided(f, d.stmt, d.value, "the clone map is not created by a dict comprehension / a single fill loop over the selected tasks")
            return
        if not match(f"{v}.id", key):
            self.undecided(f, stmt, stmt, "the clone map is not keyed by the id of the task being cloned")
            return
        if isinstance(cv, ast.Name) and cv.id == v:
            self.refute(f, stmt, stmt, "the clone map holds the selected source tasks themselves (no clone()): the relation "
                                       "rebuild then rewires the source WBS")
            return
        if not (isinstance(cv, ast.Call) and isinstance(cv.func, ast.Attribute) and cv.func.attr == 'clone'
                and isinstance(cv.func.value, ast.Name) and cv.func.value.id == v):
            self.undecided(f, stmt, stmt, "map values are not `<task>.clone()`")
            return
        if cv.args or cv.keywords:
            self.refute(f, stmt, cv, "clone() is called with overriding arguments: the copies do not carry the source's field values")
            return
        if filt:
            self.refute(f, stmt, stmt, f"the clone map is filled under a filter (`{filt}`): some selected tasks get no copy")
            return
        if il.kind != 'SRCS':
            self.undecided(f, stmt, it_txt, "cannot show that the cloned collection is the selection (given roots and descendants)")
            return
        bad = full_selection(il)
        if bad:
            self.refute(f, stmt, it_txt, f"clone map is built over an incomplete selection: {bad}")
            return
        d = type('D', (), {'stmt': stmt})
        self.site(f, d.stmt, f"{self.mapvar} = {{t.id: t.clone()}} over roots + all_children")

    # ---------------------------------------------------------------- (b) every other use of the map
    def _uses(self, F: Func, L: Labeller, tree: ast.AST, at, inlined: bool):
        par = _parent_map(tree)
        mv = L.mapvar
        names = {mv} | L.map_aliases
        for n in (ast.walk(tree) if inlined else walk_no_nested(tree)):
            if not (isinstance(n, ast.Name) and n.id in names):
                continue
            p = par.get(id(n))
            where = at if inlined else n
            if isinstance(p, ast.Assign) and p.value is n and all(isinstance(t, ast.Name) and t.id in L.map_aliases for t in p.targets):
                continue                                  # alias = map (read-only alias, see Labeller.map_aliases)
            if isinstance(p, ast.Assign) and any(t is n for t in p.targets) or isinstance(p, ast.AnnAssign) and p.target is n:
                continue
            if isinstance(p, ast.AugAssign) and p.target is n:
                self.refute(F, where, p, f"`{src(p)[:80]}` merges entries into the clone map: an entry of a selected task can be "
                                         f"overwritten by a non-copy; only setdefault(x.id, x) may add outside tasks")
                continue
            if isinstance(n.ctx, (ast.Store, ast.Del)):
                self.undecided(F, where, p, "the clone map variable is rebound in an unexpected place")
                continue
            if isinstance(p, ast.Return):
                continue
            if isinstance(p, ast.Subscript) and p.value is n:
                if isinstance(p.ctx, ast.Load) or p is getattr(self, 'creation', None):
                    continue
                st = par.get(id(p))
                if isinstance(p.ctx, ast.Store) and isinstance(st, ast.Assign) and len(st.targets) == 1 and not inlined and \
                        (F is self.f or any(F is h for h, _ in self.helpers)) and self._absent_guard(L, st, p.slice):
                    # `if K not in map: map[K] = V` inserts exactly when setdefault(K, V) would: judged by the 'externals' clause
                    self.setdefaults.append((F, L, st, p.slice, st.value))
                    continue
                self.refute(F, where, par.get(id(p), p), f"plain {'assignment to' if isinstance(p.ctx, ast.Store) else 'deletion of'} "
                                                         f"`{src(p)}`: a copy in the clone map can be overwritten / removed; outside "
                                                         f"tasks may only enter through setdefault(x.id, x)")
                continue
            if isinstance(p, ast.Attribute) and p.value is n:
                gp = par.get(id(p))
                if isinstance(gp, ast.Call) and gp.func is p:
                    if p.attr in MAP_READS:
                        continue
                    if p.attr == 'setdefault':
                        if inlined or not (F is self.f or any(F is h for h, _ in self.helpers)):
                            self.undecided(F, where, gp, "setdefault on the clone map outside __clone_tasks / inside a helper")
                        elif len(gp.args) != 2 or gp.keywords:
                            self.undecided(F, where, gp, "setdefault with an unexpected argument list")
                        else:
                            self.setdefaults.append((F, L, gp, gp.args[0], gp.args[1]))
                        continue
                    if p.attr in MAP_DESTRUCTIVE:
                        self.refute(F, where, gp, f"`{src(gp)[:80]}` can overwrite or remove the copy of a selected task in the clone "
                                                  f"map; outside tasks may only enter through setdefault(x.id, x)")
                        continue
                self.undecided(F, where, gp if gp is not None else p, "unrecognised operation on the clone map")
                continue
            if isinstance(p, ast.Compare) and any(c is n for c in p.comparators):
                i = [j for j, c in enumerate(p.comparators) if c is n][0]
                if isinstance(p.ops[i], (ast.In, ast.NotIn)):
                    continue
            if isinstance(p, ast.FormattedValue) or (isinstance(p, (ast.For, ast.comprehension)) and p.iter is n):
                continue
            call = p if isinstance(p, ast.Call) else (par.get(id(p)) if isinstance(p, ast.keyword) else None)
            if isinstance(call, ast.Call) and call.func is not n:
                if isinstance(call.func, ast.Name) and call.func.id in READ_BUILTINS:
                    continue
                if not inlined:
                    cn = L.node(call)
                    exp = L.expand(call, cn)
                    if not (isinstance(exp, ast.Call) and same(exp.func, call.func)):
                        self._uses(F, L, ast.Expr(value=exp), call, True)       # a one-line helper was inlined
                        continue
                    ci = [c for c in self.ctx.cg.calls_in(F) if c.node is call]
                    if F is self.f and ci and self._map_helper(F, L, call, ci[0], n):
                        continue
                    if self._list_helper(F, L, call, cn, map_arg=n) is not None:
                        continue            # read-only use of the map inside a list-building helper (judged by the relation rebuild)
                    if ci and not ci[0].targets and (ci[0].name or '') not in MUTATORS and \
                            not (isinstance(call.func, ast.Name) and call.func.id in self.prog.classes):
                        continue            # print / logging: no package code receives the map
            self.undecided(F, where, p if p is not None else n, "the clone map escapes (alias, argument of a package function, ...): "
                                                               "insertions can no longer be enumerated")

    def _map_helper(self, F: Func, L: Labeller, call: ast.Call, ci, map_name: ast.Name) -> bool:
        """the clone map is handed to a (multi statement) private helper of the same class: analyse the helper's uses of
        that parameter with the caller's labels for the other arguments"""
        if len(ci.targets) != 1 or ci.targets[0].kind not in ('method', 'static') or ci.targets[0].cls != F.cls or call.keywords:
            return False
        h = ci.targets[0]
        if h is F or any(h is x for x, _ in self.helpers) or any(isinstance(a, ast.Starred) for a in call.args):
            return False
        cn = L.node(call)
        if cn is None or L.cfg.conditions(cn) or L.cfg.enclosing_loops(cn) or not L.cfg.dominates(cn, L.cfg.exit):
            return False                       # helper must run exactly once, unconditionally
        ps = list(h.params)[1:] if h.kind == 'method' else list(h.params)
        if h.kind == 'method' and not (isinstance(call.func, ast.Attribute) and isinstance(call.func.value, ast.Name)
                                       and call.func.value.id == F.self_name):
            return False
        if len(call.args) > len(ps):
            return False
        pmap, params = None, {}
        for p, a in zip(ps, call.args):
            if a is map_name:
                pmap = p
            else:
                params[p] = L.label(a, cn)
        if pmap is None:
            return False
        hl = Labeller(self.ctx, h, pmap, params)
        if len(hl.flow.defs_of(pmap)) != 1:
            return False                       # the helper rebinds the parameter
        if any(isinstance(r, ast.Return) and r.value is not None for r in walk_no_nested(h.node)):
            return False
        self.helpers.append((h, hl))
        self._uses(h, hl, h.node, None, False)
        return True

    def _staged_fills(self, f: Func, L: Labeller, call, karg, varg, cn):
        """outside tasks collected in a local staging dict first and moved into the clone map afterwards:
               D = {};  ... D[x.id] = x / D.setdefault(x.id, x) ...;  for k, v in D.items(): map.setdefault(k, v)
        -> the fills of D as registrations [(f, L, stmt, K, V)] (judged where they stand), or None when `call` is not such a transfer"""
        if cn is None or not (isinstance(karg, ast.Name) and isinstance(varg, ast.Name)):
            return None
        fors = L.cfg.enclosing_fors(cn)
        if len(fors) != 1:
            return None
        fo = fors[0]
        m = match("$d.items()", fo.iter)
        if not (m and isinstance(fo.target, ast.Tuple) and len(fo.target.elts) == 2 and
                all(isinstance(x, ast.Name) for x in fo.target.elts) and fo.target.elts[0].id == karg.id and fo.target.elts[1].id == varg.id):
            return None
        if isinstance(m['d'], ast.Call):
            return self._staged_helper(f, L, call, karg, m['d'], fo, cn)
        if not isinstance(m['d'], ast.Name):
            return None
        d = m['d'].id
        d0 = L.flow.defs_of(d)
        if len(d0) == 1 and d0[0].kind == 'assign' and isinstance(d0[0].value, ast.Name) and d not in L.mutated and \
                d0[0].node is not None and not L.cfg.conditions(d0[0].node) and not L.cfg.enclosing_fors(d0[0].node) and \
                len([n for n in walk_no_nested(f.node) if isinstance(n, ast.Name) and n.id == d]) == 2:
            d = d0[0].value.id                  # outer = found; for k, v in outer.items(): a read-only alias of the staging dict
            alias_stmt = d0[0].stmt
            d0 = L.flow.defs_of(d)
        else:
            alias_stmt = None
        if len(d0) == 1 and d0[0].kind == 'assign' and isinstance(d0[0].value, ast.Call) and d0[0].node is not None and \
                not L.cfg.conditions(d0[0].node) and not L.cfg.enclosing_fors(d0[0].node) and d not in L.mutated and \
                len([n for n in walk_no_nested(f.node) if isinstance(n, ast.Name) and n.id == d]) == 2:
            return self._staged_helper(f, L, call, karg, d0[0].value, fo, cn)        # outer = self.<helper>(..); for k, v in outer.items()
        if d == L.mapvar or d in L.map_aliases:
            return None
        ds = L.flow.defs_of(d)
        if len(ds) != 1 or ds[0].kind != 'assign' or ds[0].value is None or not (
                isinstance(ds[0].value, ast.Dict) and not ds[0].value.keys or match("dict()", ds[0].value)):
            return None
        hn = L.cfg.node_of(fo)
        if hn is None or L.cfg.conditions(hn) or L.cfg.enclosing_fors(hn) or not L.cfg.dominates(hn, L.cfg.exit):
            return None                                  # the transfer must run once, unconditionally
        if [c for c in L.cfg.conditions(cn) if not self._absent_guard_atom(L, c, karg)]:
            return None
        fills = []
        par = _parent_map(f.node)
        for n in walk_no_nested(f.node):
            if not (isinstance(n, ast.Name) and n.id == d):
                continue
            p = par.get(id(n))
            if p is ds[0].stmt or (isinstance(p, ast.Attribute) and par.get(id(p)) is fo.iter) or (alias_stmt is not None and p is alias_stmt):
                continue
            if isinstance(p, ast.Subscript) and p.value is n and isinstance(p.ctx, ast.Store):
                stt = par.get(id(p))
                if isinstance(stt, ast.Assign) and len(stt.targets) == 1 and not isinstance(p.slice, ast.Slice):
                    fills.append((f, L, stt, p.slice, stt.value))
                    continue
                return None
            if isinstance(p, ast.Attribute) and p.value is n and p.attr == 'setdefault':
                c2 = par.get(id(p))
                if isinstance(c2, ast.Call) and c2.func is p and len(c2.args) == 2 and not c2.keywords:
                    fills.append((f, L, c2, c2.args[0], c2.args[1]))
                    continue
                return None
            if isinstance(p, ast.Compare) or (isinstance(p, ast.Subscript) and isinstance(p.ctx, ast.Load)):
                continue                                 # membership tests / reads of the staging dict
            return None
        return fills if fills else None

    def _staged_helper(self, f: Func, L: Labeller, call, karg, hcall: ast.Call, fo: ast.For, cn):
        """for k, v in self.<helper>(<tasks>).items(): map.setdefault(k, v)  - the staging dict is built and returned by a private
        helper of the same class.  The helper's fills are judged inside the helper (its parameters carry the caller's labels).
        An accumulator that is a MUTABLE DEFAULT ARGUMENT of the helper and is not passed by the caller is REFUTED."""
        if not (isinstance(hcall.func, ast.Attribute) and isinstance(hcall.func.value, ast.Name) and hcall.func.value.id == f.self_name
                and f.cls and not any(isinstance(a, ast.Starred) for a in hcall.args)):
            return None
        h = self.prog.find_method(f.cls, unmangle(hcall.func.attr))
        if h is None or h.kind != 'method' or h is f or any(h is x for x, _ in self.helpers):
            return None
        hn = L.cfg.node_of(fo)
        if hn is None or L.cfg.conditions(hn) or L.cfg.enclosing_fors(hn) or not L.cfg.dominates(hn, L.cfg.exit):
            return None
        if [c for c in L.cfg.conditions(cn) if not self._absent_guard_atom(L, c, karg)]:
            return None
        ps = list(h.params)[1:]
        if len(hcall.args) > len(ps):
            return None
        bound = dict(zip(ps, hcall.args))
        for kw in hcall.keywords:
            if kw.arg is None or kw.arg not in ps:
                return None
            bound[kw.arg] = kw.value
        rets = [r for r in walk_no_nested(h.node) if isinstance(r, ast.Return)]
        names = {r.value.id for r in rets if isinstance(r.value, ast.Name)}
        if not rets or len(names) != 1 or not all(isinstance(r.value, ast.Name) for r in rets):
            return None
        acc = names.pop()
        hflow = flow_of(h)
        empty = lambda e: e is not None and (isinstance(e, ast.Dict) and not e.keys or bool(match("dict()", e)))
        a = h.node.args
        pos = a.posonlyargs + a.args
        defaults = dict(zip([x.arg for x in pos[len(pos) - len(a.defaults):]], a.defaults))
        defaults.update({x.arg: dflt for x, dflt in zip(a.kwonlyargs, a.kw_defaults) if dflt is not None})
        ds = hflow.defs_of(acc)
        shared_default = False
        if acc in ps:
            if len(ds) != 1:
                return None                              # rebound (`found = found or {}` ...): not followed
            if acc in bound:
                if not empty(bound[acc]):
                    return None
            elif acc in defaults and empty(defaults[acc]):
                shared_default = True
            else:
                return None
        elif not (len(ds) == 1 and ds[0].kind == 'assign' and empty(ds[0].value) and ds[0].node is not None
                  and not cfg_of(h).conditions(ds[0].node) and not cfg_of(h).enclosing_loops(ds[0].node)):
            return None
        params = {p_: L.label(bound[p_], hn) for p_ in ps if p_ in bound and p_ != acc}
        hl = Labeller(self.ctx, h, None, params)
        fills = self._dict_fills(h, hl, acc, {id(r.value) for r in rets} | ({id(ds[0].stmt)} if acc not in ps else set()))
        if not fills:
            return None
        self.staging_calls.append((hcall, h, acc))
        if shared_default:
            self.refute(f, hcall, f"{acc}={{}}", f"the outside tasks are collected by `{src(hcall)[:60]}` in `{acc}`, a MUTABLE DEFAULT ARGUMENT of "
                                                 f"{h.name} (`{acc}={{}}`) that the call does not pass: the one dict object is shared by all calls "
                                                 f"on all WBS objects and keeps every outside task ever seen, so tasks registered by an earlier "
                                                 f"clone()/subtree() enter this clone map as well - a link to a non-selected member with such "
                                                 f"an id is wired to that stale foreign task instead of being left out")
        return fills

    def _dict_fills(self, F: Func, LAB: Labeller, d: str, skip_ids) -> Optional[list]:
        """every use of the local / parameter dict `d` in F is a fill `d[K] = V` / `d.setdefault(K, V)` (returned as registrations)
        or a harmless read; None when d is used in any other way"""
        fills = []
        par = _parent_map(F.node)
        for n in walk_no_nested(F.node):
            if not (isinstance(n, ast.Name) and n.id == d):
                continue
            p = par.get(id(n))
            if id(n) in skip_ids or id(p) in skip_ids or isinstance(p, ast.arg):
                continue
            if isinstance(p, ast.Subscript) and p.value is n and isinstance(p.ctx, ast.Store):
                stt = par.get(id(p))
                if isinstance(stt, ast.Assign) and len(stt.targets) == 1 and not isinstance(p.slice, ast.Slice):
                    fills.append((F, LAB, stt, p.slice, stt.value))
                    continue
                return None
            if isinstance(p, ast.Attribute) and p.value is n and p.attr == 'setdefault':
                c2 = par.get(id(p))
                if isinstance(c2, ast.Call) and c2.func is p and len(c2.args) == 2 and not c2.keywords:
                    fills.append((F, LAB, c2, c2.args[0], c2.args[1]))
                    continue
                return None
            if isinstance(p, ast.Compare) or (isinstance(p, ast.Subscript) and isinstance(p.ctx, ast.Load)):
                continue
            return None
        return fills

    def _absent_guard_atom(self, L: Labeller, cond, key: ast.AST) -> bool:
        t, pol = cond
        m = match("$k not in $m", t) if pol else match("$k in $m", t)
        return bool(m and L.is_map(m['m']) and same(m['k'], key))

    def _absent_guard(self, L: Labeller, st: ast.stmt, key: ast.AST) -> bool:
        """the statement runs only under `<key> not in <clone map>` (for the same key expression)"""
        cn = L.cfg.node_of(st)
        if cn is None:
            return False
        k = L.expand(key, cn)
        for atom, pol in self._atoms(L, cn):
            m = match("$k not in $m", atom) if pol else match("$k in $m", atom)
            if m and L.is_map(m['m']) and same(m['k'], k):
                return True
            m = match("$m.get($k) is None", atom) if pol else match("$m.get($k) is not None", atom)
            if m and L.is_map(m['m']) and same(m['k'], k):
                return True
        return False

    def _ext_test(self, atom: ast.AST, pol: bool, v: ast.AST, sn: Optional[str]) -> Optional[str]:
        for pat, ne in (("$a != $b", True), ("$a is not $b", True), ("$a == $b", False), ("$a is $b", False)):
            m = match(pat, atom)
            if not m:
                continue
            for x, y in ((m['a'], m['b']), (m['b'], m['a'])):
                mw = match("$t.wbs", x)
                if mw and same(mw['t'], v):
                    if isinstance(y, ast.Name) and y.id == sn:
                        return 'EXT' if ne == pol else 'INT'
                    if isinstance(y, ast.Constant) and y.value is None:
                        return 'NONE'
        mw = match("$t.wbs", atom)
        if mw and same(mw['t'], v):
            return 'NONE'
        return None

    def _externals(self):
        if not self._need_map():
            return
        self._uses(self.f, self.L, self.f.node, None, False)
        covered = {}
        unknown_cov = False
        partial = {}
        work = list(self.setdefaults)
        while work:
            f, L, call, karg, varg = work.pop(0)
            cn = L.node(call)
            staged = self._staged_fills(f, L, call, karg, varg, cn)
            if staged is not None:
                work = staged + work           # judge the registrations where the staging dict is filled
                continue
            k, v = L.expand(karg, cn), L.expand(varg, cn)
            mk = match("$x.id", k)
            vl = L.lab(v, cn, {})
            reg = [f, call, [], isinstance(call, ast.Call)]
            self.registrations.append(reg)
            if vl.kind in ('SRC', 'SELF', 'SRCS', 'MEMBERS', 'SRCMAP'):
                self.refute(f, call, call, f"`{src(call)}` puts `{src(v)}`, an object of the source side that is NOT tested to be outside, "
                                           f"into the clone map as a non-copy: the rebuilt relations of the copy then point into the source WBS")
                continue
            if not (mk and same(mk['x'], v)):
                self.undecided(f, call, call, "outside task is not registered under its own id (`setdefault(x.id, x)`)")
                continue
            vnames = {n.id for n in ast.walk(v) if isinstance(n, ast.Name)}
            fors = L.cfg.enclosing_fors(cn)
            iters = [L.expand(fo.iter, L.cfg.node_of(fo)) for fo in fors]
            verdicts, ext, mentions_v = [], False, False
            for atom, pol in self._atoms(L, cn):
                an = {n.id for n in ast.walk(atom) if isinstance(n, ast.Name)}
                t = self._ext_test(atom, pol, v, f.self_name)
                if t == 'EXT':
                    ext = mentions_v = True
                    continue
                if t == 'INT':
                    mentions_v = True
                    verdicts.append(('refute', self.text(atom), f"tasks are put into the clone map when `{'' if pol else 'not '}{self.text(atom)}`, i.e. "
                                                     f"when they belong to the SAME WBS: members are shared with the copy and outside "
                                                     f"tasks are dropped (expected `{src(v)}.wbs != self`)"))
                    continue
                if t == 'NONE':
                    mentions_v = True
                    verdicts.append(('refute', self.text(atom), f"the test `{'' if pol else 'not '}{self.text(atom)}` excludes detached tasks (wbs is "
                                                     f"None): they are outside the source WBS, so links to them must be kept; "
                                                     f"the only test allowed is `{src(v)}.wbs != self`"))
                    continue
                mm = match("$x in $c", atom) or match("$x not in $c", atom)
                if mm and (same(mm['x'], v) or same(mm['x'], k)):
                    mentions_v = True
                    cl = L.lab(mm['c'], cn, {})
                    neg = isinstance(atom.ops[0], ast.NotIn) == pol
                    if cl.kind == 'MAP' and neg:
                        continue                       # `x.id not in map`: what setdefault does anyway
                    if cl.kind in ('SRCMAP', 'SRCS', 'SRCKEYS'):
                        verdicts.append(('refute', self.text(atom), f"`{'' if pol else 'not '}{self.text(atom)}` decides 'outside' by the selection instead "
                                                         f"of by the owner: for subtree() links to non-selected MEMBERS of the source are "
                                                         f"kept and wired to the live source tasks (expected `{src(v)}.wbs != self`)"))
                        continue
                    verdicts.append(('undecided', self.text(atom), "unrecognised membership test guarding the registration of an outside task"))
                    continue
                if an & vnames:
                    mentions_v = True
                    verdicts.append(('undecided', self.text(atom), "unrecognised condition on the task being registered as outside task"))
                    continue
                if any(same(atom, it) or match("len($x) > 0", atom) and same(match("len($x) > 0", atom)['x'], it) for it in iters):
                    continue                           # `if t.predecessors:` around the loop over the same list
                verdicts.append(('undecided', self.text(atom), "registration of outside tasks is conditional on a test the rule does not interpret"))
            if not ext and not any(vd[0] == 'refute' for vd in verdicts):
                if not mentions_v:
                    verdicts.append(('refute', call, f"`{src(call)}` is not guarded by `{src(v)}.wbs != self`: non-selected members of the "
                                                     f"source WBS enter the clone map, so the copy links to live source tasks"))
                elif not verdicts:
                    verdicts.append(('undecided', call, "no owner test found"))
            for kind, c, msg in verdicts:
                (self.refute if kind == 'refute' else self.undecided)(f, call, c, msg)
            if verdicts:
                continue
            # which relation of which tasks is scanned
            rel = None
            if isinstance(v, ast.Name):
                for fo, it in zip(fors, iters):
                    if isinstance(fo.target, ast.Name) and fo.target.id == v.id:
                        rel = _rels_in_iter(it)
            note = "setdefault(x.id, x) under x.wbs != self"
            if rel:
                for t_expr, r in rel:
                    tl = L.lab(t_expr, cn, {})
                    if tl.kind == 'SRC' and full_selection(tl) is None:
                        covered.setdefault(r, call)
                    elif tl.kind != 'SRC':
                        unknown_cov = True
                    else:
                        where = L.short(t_expr)
                        for fo in fors:
                            if isinstance(fo.target, ast.Name) and isinstance(t_expr, ast.Name) and fo.target.id == t_expr.id:
                                where = f"{t_expr.id} in {src(fo.iter)[:50]}"
                        partial.setdefault(r, (where, full_selection(tl)))
                for _, r in rel:
                    self.site(f, call, note + f" for x in <selected>.{r}")
                    if r not in reg[2]:
                        reg[2].append(r)
            else:
                unknown_cov = True
                self.site(f, call, note)
        f = self.f
        if not any(k == 'refute' or k == 'undecided' for c, k, *_ in self.facts if c == 'externals'):
            for r in DEP_RELS:
                if r not in covered and unknown_cov:
                    self.undecided(f, f.node, f"outside {r}", f"cannot show that the {r} of every selected task are scanned for "
                                                              f"tasks outside the source WBS")
                elif r not in covered:
                    why = f" (the scan runs over `{partial[r][0]}` only: {partial[r][1]})" if r in partial else ""
                    # "dropped" is certain only when the rebuild of r is made of clone-map lookups: decided after _relations
                    self._pending_cov.append((r, why))

    # ---------------------------------------------------------------- (c) + (d) relation rebuild
    def _map_lookup(self, L: Labeller, e: ast.AST):
        """map[K] / map.get(K) / map.get(K, None) -> (K, is_subscript)"""
        if isinstance(e, ast.Subscript) and L.is_map(e.value) and not isinstance(e.slice, ast.Slice):
            return e.slice, True
        m = match("$m.get($k)", e) or match("$m.get($k, None)", e)
        if m and L.is_map(m['m']):
            return m['k'], False
        return None

    # ---- statement-level guards of a relation store: propositional formulas over "the source task's relation R is non-empty"
    def _rel_prop(self, L: Labeller, e: ast.AST, origin, cn):
        """e as a function {relation name: bool} -> bool, or None when e is not built from not/and/or over emptiness tests
        (`S.R`, `len(S.R) > 0`, `len(S.R) == 0`, `S.parent is [not] None`, `bool(S.R)`, `S.R != []`) of relations of the source
        task S the copy belongs to"""
        if isinstance(e, ast.UnaryOp) and isinstance(e.op, ast.Not):
            f = self._rel_prop(L, e.operand, origin, cn)
            return None if f is None else (lambda env, f=f: not f(env))
        if isinstance(e, ast.BoolOp):
            fs = [self._rel_prop(L, v, origin, cn) for v in e.values]
            if any(f is None for f in fs):
                return None
            if isinstance(e.op, ast.And):
                return lambda env, fs=fs: all(f(env) for f in fs)
            return lambda env, fs=fs: any(f(env) for f in fs)

        def var(x):
            x, bad = strip_seq_wrappers(x)
            if isinstance(x, ast.Attribute) and x.attr in ALL_RELS:
                sl = L.lab(x.value, cn, {})
                if sl.kind == 'SRC' and sl.origin is not None and sl.origin == origin:
                    return x.attr
            return None
        for pat, positive in (("len($x) > 0", True), ("len($x) != 0", True), ("len($x) >= 1", True), ("0 < len($x)", True),
                              ("bool($x)", True), ("$x != []", True), ("len($x)", True),
                              ("len($x) == 0", False), ("len($x) < 1", False), ("$x == []", False), ("0 == len($x)", False),
                              ("$x is not None", True), ("$x is None", False)):
            m = match(pat, e)
            if m:
                r = var(m['x'])
                if r is None or (pat.startswith('$x is') and r != 'parent') or (r == 'parent' and 'len' in pat):
                    return None
                return (lambda env, r=r: env[r]) if positive else (lambda env, r=r: not env[r])
        r = var(e)
        if r is not None:
            return lambda env, r=r: env[r]
        m = match("$k in $s", e) or match("$k not in $s", e)
        if m and isinstance(m['s'], ast.Name) and match("$t.id", m['k']):
            sl = L.lab(m['k'].value, cn, {})
            if sl.kind == 'SRC' and sl.origin is not None and sl.origin == origin:
                g = self._id_set_formula(L, m['s'].id)
                if g is not None:
                    pos = isinstance(e.ops[0], ast.In)
                    return lambda env, g=g, pos=pos: g(env) == pos
        return None

    def _id_set_formula(self, L: Labeller, sname: str):
        """local set of ids built from the selection:
               S = set();  for u in <all selected>: [if C(u):] S.add(u.id) / S.update(p.id for p in u.R)
        -> membership of the id of a selected task t as a function of t's own relations: `C(t)` for the add, "t has a selected
        successor / predecessor" for ids taken from u.predecessors / u.successors (mirror lists, C01); None when S is built otherwise"""
        f = self.f
        ds = L.flow.defs_of(sname)
        if len(ds) != 1 or ds[0].kind != 'assign' or ds[0].value is None or not match("set()", ds[0].value):
            return None
        par = _parent_map(f.node)
        parts = []
        for n in walk_no_nested(f.node):
            if not (isinstance(n, ast.Name) and n.id == sname):
                continue
            p = par.get(id(n))
            if p is ds[0].stmt or isinstance(p, ast.Compare):
                continue
            call = par.get(id(p)) if isinstance(p, ast.Attribute) and p.value is n else None
            if not (isinstance(call, ast.Call) and call.func is p and p.attr in ('add', 'update') and len(call.args) == 1):
                return None
            cn = L.node(call)
            fors = L.cfg.enclosing_fors(cn) if cn is not None else []
            if not fors or not isinstance(fors[0].target, ast.Name):
                return None
            u = fors[0].target.id
            il = L.lab(L.expand(fors[0].iter, L.cfg.node_of(fors[0])), L.cfg.node_of(fors[0]), {})
            if il.kind != 'SRCS' or full_selection(il) is not None or L.cfg.conditions(L.cfg.node_of(fors[0])):
                return None
            conds = []
            for atom, pol in self._atoms(L, cn):
                g = self._rel_prop(L, atom, u, cn)
                if g is None:
                    return None
                conds.append((g, pol))
            arg = call.args[0]
            src_rel = None
            if p.attr == 'add' and len(fors) == 1 and match(f"{u}.id", arg):
                parts.append(lambda env, conds=conds: all(g(env) == pol for g, pol in conds))
                continue
            if p.attr == 'update' and len(fors) == 1 and isinstance(arg, (ast.GeneratorExp, ast.ListComp, ast.SetComp)) and \
                    len(arg.generators) == 1 and not arg.generators[0].ifs and isinstance(arg.generators[0].target, ast.Name) and \
                    match(f"{arg.generators[0].target.id}.id", arg.elt):
                it = strip_seq_wrappers(arg.generators[0].iter)[0]
                if isinstance(it, ast.Attribute) and isinstance(it.value, ast.Name) and it.value.id == u:
                    src_rel = it.attr
            elif p.attr == 'add' and len(fors) == 2 and isinstance(fors[1].target, ast.Name) and match(f"{fors[1].target.id}.id", arg):
                it = strip_seq_wrappers(fors[1].iter)[0]
                if isinstance(it, ast.Attribute) and isinstance(it.value, ast.Name) and it.value.id == u:
                    src_rel = it.attr
            if src_rel not in DEP_RELS:
                return None
            # the guards of this fill may only say that u.<src_rel> is non-empty (true anyway when an id is taken from it)
            ok = True
            for env in _rel_envs():
                if env[src_rel] and not all(g(env) == pol for g, pol in conds):
                    ok = False
            if not ok:
                return None
            mirror = 'sel_successors' if src_rel == 'predecessors' else 'sel_predecessors'
            parts.append(lambda env, mirror=mirror: env[mirror])
        if not parts:
            return None
        return lambda env, parts=parts: any(g(env) for g in parts)

    def _implies_empty(self, L: Labeller, atoms, rel: str, origin, cn) -> bool:
        """the path condition is a formula over relation emptiness of the source task and holds only when its `rel` is empty"""
        fs = []
        for atom, pol in atoms:
            f = self._rel_prop(L, atom, origin, cn)
            if f is None:
                return False
            fs.append((f, pol))
        for env in _rel_envs():
            if env[rel] and all(f(env) == pol for f, pol in fs):
                return False
        return True

    def _skip_verdict(self, L: Labeller, atoms, rel: str, origin, cn, others=()):
        """the store of relation `rel` runs under the path condition `atoms`.  -> (verdict, implies_nonempty, witness) with verdict
        'none' (unconditional) | 'benign' (skipped only when the source's `rel` is empty / None: a fresh copy already has that
        value) | 'bad' (skipped for some source task whose `rel` is non-empty; witness says which) | 'unknown'"""
        if not atoms:
            return 'none', False, None

        def formula(ats, at_node):
            out = []
            for atom, pol in ats:
                f = self._rel_prop(L, atom, origin, at_node)
                if f is None:
                    return None
                out.append((f, pol))
            return out
        fs = formula(atoms, cn)
        if fs is None:
            return 'unknown', False, None
        # other assignments of the same relation on the same copy (if/else forms): the relation is assigned when any of them runs
        alt = [formula(a, n) for a, n in others]
        witness, implies = None, True
        for env in _rel_envs():
            run = all(f(env) == pol for f, pol in fs)
            if run and not env[rel]:
                implies = False
            if not run and env[rel] and (witness is None or sum(env.values()) < sum(witness.values())):
                if any(a is None for a in alt):
                    return 'unknown', False, None
                if any(all(f(env) == pol for f, pol in a) for a in alt):
                    continue
                witness = env
        if witness is not None:
            return 'bad', implies, witness
        return 'benign', implies, None

    def _relations(self):
        self._good = {}
        self._relations_inner()
        f = self.f
        for r, st_ in self._identity_rels.items():
            self.site(f, st_, f"outside {r} are handed to the copy as themselves under `x.wbs != self` (no id-keyed registration needed)",
                      'externals')
        for r, why in self._pending_cov:
            if r in self._identity_seen:
                continue
            if r in self._good:
                self.refute(f, f.node, f"outside {r}", f"no `setdefault(x.id, x)` under `x.wbs != self` scans the {r} of every "
                                                       f"selected task{why}: {r} that live outside the source WBS never enter the clone "
                                                       f"map, so those links are dropped instead of being kept", 'externals')
            elif not any(c == 'relations' and k == 'refute' and isinstance(cs, str) and cs == f"{r} not rebuilt"
                         for c, k, _, _, cs, _ in self.facts):
                self.undecided(f, f.node, f"outside {r}", f"no `setdefault(x.id, x)` under `x.wbs != self` scans the {r} of every selected "
                                                          f"task{why}, and the rebuild of `{r}` is not made of clone-map lookups the rule "
                                                          f"understands: cannot tell whether links to tasks outside the source WBS are kept",
                               'externals')

    def _relations_inner(self):
        if not self._need_map():
            return
        f, L = self.f, self.L
        good = self._good
        self._parent_lookup_seen = False
        parent_none_only = []
        for st, tgt, val in facts.attr_stores(f):
            rel = tgt.attr
            if rel not in ALL_RELS:
                continue
            cn = L.cfg.node_of(st)
            if not isinstance(st, ast.Assign) or len(st.targets) != 1 or st.targets[0] is not tgt or cn is None:
                self.undecided(f, st, st, f"`{rel}` is written by something other than a single plain assignment", 'receivers')
                continue
            recv = L.expand(tgt.value, cn)
            rl = L.lab(recv, cn, {})
            if rl.kind in SOURCEISH or (rl.kind == 'MAPPED' and rl.origin == 'link'):
                what = "a task of the source WBS" if rl.kind in SOURCEISH else "the map entry of a LINKED task, which may be an outside task"
                self.refute(f, st, tgt, f"`{src(tgt)}` is assigned on {what} (`{L.short(recv, src(tgt.value))[:60]}`), not on the copy `map[t.id]` of a selected "
                                        f"task: the rebuild writes through a non-copy", 'receivers')
                continue
            if rl.kind != 'CLONE' or self._map_lookup(L, recv) is None:
                self.undecided(f, st, tgt, f"cannot show that the receiver `{L.short(recv, src(tgt.value))[:60]}` is the copy of a selected task", 'receivers')
                continue
            bad = full_selection(rl)
            if bad:
                self.refute(f, st, tgt, f"`{rel}` is rebuilt only for part of the copies: {bad}", 'relations')
                continue
            rhs = L.expand_acc(st.value, cn)
            lh = self._list_helper(f, L, rhs, cn)
            if lh is not None:
                rhs = lh                    # the list is built by a private helper of the class: judged as the comprehension it computes
            stmt_atoms = self._atoms(L, cn)
            if rel != 'parent' and (isinstance(rhs, ast.List) and not rhs.elts or match("list()", rhs)) and stmt_atoms and \
                    self._implies_empty(L, stmt_atoms, rel, rl.origin, cn):
                continue        # `copy.R = []` in the branch where the source's R is empty (else-branch of an if/else form)
            if rel == 'parent' and isinstance(rhs, ast.Constant) and rhs.value is None:
                skip, implies, witness = 'none', False, None        # `copy.parent = None` branch of an if/else form: judged below
            else:
                others = []
                for st2, tgt2, _ in facts.attr_stores(f):
                    cn2 = L.cfg.node_of(st2)
                    if st2 is not st and tgt2.attr == rel and cn2 is not None:
                        r2 = L.lab(L.expand(tgt2.value, cn2), cn2, {})
                        if r2.kind == 'CLONE' and r2.origin == rl.origin:
                            others.append((self._atoms(L, cn2), cn2))
                skip, implies, witness = self._skip_verdict(L, stmt_atoms, rel, rl.origin, cn, others)
            if skip == 'bad' and rel == 'children':
                # every child re-attaches itself through its own `parent` assignment, in source order: skipping the children
                # assignment of some copies may well be harmless - depends on the setters, not decided here
                self.undecided(f, st, st, f"`children` is assigned only for part of the copies (`{' and '.join(facts.cond_texts(stmt_atoms))[:80]}`); "
                                          f"whether the parent assignments of the children rebuild the same order is not decided", 'relations')
            elif skip == 'bad':
                rest = [r for r in ALL_RELS if r != rel]
                case = ', '.join(('' if witness[r] else 'no ') + r for r in rest)
                if rel in DEP_RELS and not witness.get('sel_' + rel, True) and any(
                        isinstance(x_, ast.Compare) and isinstance(x_.ops[0], (ast.In, ast.NotIn)) for a_, _ in stmt_atoms for x_ in [a_]):
                    case += f" whose {rel} all lie outside the selection"
                self.refute(f, st, st, f"`{src(tgt)}` is assigned only when `{' and '.join(self.text(a) if p else 'not (' + self.text(a) + ')' for a, p in stmt_atoms)[:120]}`: "
                                       f"for a source task with {'a parent' if rel == 'parent' else rel} and {case} the `{rel}` of its copy is never "
                                       f"assigned, it is left to the mirror updates of other assignments ("
                                       + ("links to tasks outside the source WBS are lost" if rel in DEP_RELS else
                                          "the order of siblings then differs from the source's") +
                                       "); every copy must get all four relations from its source task", 'relations')
            if rel == 'parent':
                ok = self._parent_rhs(st, tgt, rhs, cn, rl.origin, stmt_atoms, skip in ('benign', 'bad'), implies)
                if ok == 'none-only' and skip != 'bad':
                    parent_none_only.append(st)
                    continue
            else:
                ok = self._list_rhs(st, tgt, rel, rhs, cn, rl.origin)
                if ok and stmt_atoms and skip not in ('benign', 'bad'):
                    self.undecided(f, st, st, f"`{rel}` is rebuilt only under a condition the rule does not interpret "
                                              f"(`{' and '.join(facts.cond_texts(stmt_atoms))[:80]}`)", 'relations')
                    ok = False
            if ok and skip != 'bad':
                good.setdefault(rel, st)
        if parent_none_only and 'parent' not in good:
            self.refute(f, parent_none_only[0], parent_none_only[0], "the parent of every copy is set to None: the hierarchy is not "
                                                                     "carried over", 'relations')
        problems = any(k in ('refute', 'undecided') for c, k, *_ in self.facts if c in ('relations', 'receivers'))
        if problems:
            return
        missing = [r for r in ALL_RELS if r not in good]
        for r in missing:
            if r in DEP_RELS or all(h in missing for h in HIER_RELS):
                self.refute(f, f.node, f"{r} not rebuilt", f"no assignment `<copy>.{r} = [...]` in __clone_tasks: the {r} of the copies are "
                                                           f"left out of the rebuild" + (" (links to tasks outside the source WBS on that "
                                                           f"side are lost)" if r in DEP_RELS else " (the copy has no hierarchy)"), 'relations')
            else:
                self.undecided(f, f.node, f"{r} not rebuilt", f"`{r}` is not assigned on the copies; the hierarchy is then only rebuilt "
                                                              f"through the mirror update of the other side and the sibling order depends "
                                                              f"on the traversal order - not decided", 'relations')

    def _parent_rhs(self, st, tgt, rhs, cn, origin, stmt_atoms, guard_benign=False, guard_implies_parent=False) -> bool:
        """`<copy>.parent = <rhs>`; provenance findings go to 'receivers', faithfulness findings to 'relations'"""
        f, L = self.f, self.L
        sh = L.short
        leaves = []

        def walk(e, conds):
            if isinstance(e, ast.IfExp):
                walk(e.body, conds + facts.split_conj(e.test, True))
                walk(e.orelse, conds + facts.split_conj(e.test, False))
            elif isinstance(e, ast.BoolOp) and isinstance(e.op, ast.And) and len(e.values) == 2:
                walk(e.values[1], conds + facts.split_conj(e.values[0], True))
                leaves.append(('falsy', e.values[0], conds))
            else:
                leaves.append(('value', e, conds))
        walk(rhs, list(stmt_atoms))
        prov_ok, rel_ok, found = True, True, False

        def rel_bad(kind, msg):
            nonlocal rel_ok
            rel_ok = False
            (self.refute if kind == 'refute' else self.undecided)(f, st, st, msg, 'relations')

        for kind, e, conds in leaves:
            if kind == 'value' and isinstance(e, ast.Constant) and e.value is None:
                continue
            if kind == 'falsy':
                if not (match("$s.parent", e) and L.lab(e.value, cn, {}).kind == 'SRC'):
                    rel_bad('undecided', f"unrecognised short-circuit operand `{sh(e)}` in the parent rebuild")
                continue
            lk = self._map_lookup(L, e)
            if lk is None:
                prov_ok = False
                if L.lab(e, cn, {}).kind in SOURCEISH:
                    self.refute(f, st, st, f"`{src(tgt)}` is set to `{sh(e)[:60]}`, a task of the source WBS, not to a clone-map lookup: the "
                                           f"copy is hung under the source's parent (and the source's children list is modified)", 'receivers')
                else:
                    self.undecided(f, st, st, f"parent of the copy (`{sh(e)[:60]}`) is not a clone-map lookup or None", 'receivers')
                continue
            found = True
            key, is_sub = lk
            key0, id_nullable = key, False
            if isinstance(key, ast.IfExp) and isinstance(key.orelse, ast.Constant) and key.orelse.value is None:
                # hoisted id:  pid = S.parent.id if S.parent else None;  ... map[pid] / map.get(pid)
                mb = match("$s.parent.id", key.body)
                mt = match("$p is not None", key.test)
                if mb and (same(key.test, key.body.value) or (mt and same(mt['p'], key.body.value))):
                    key, id_nullable = key.body, True
            mk = match("$s.parent.id", key)
            sl = L.lab(mk['s'], cn, {}) if mk else None
            if not mk or sl.kind != 'SRC':
                rel_bad('undecided', f"parent of the copy is looked up under `{sh(key)[:60]}`, not under `<source task>.parent.id`")
                continue
            if sl.origin is None or sl.origin != origin:
                rel_bad('refute', f"the parent of the copy of one task is looked up from another task's parent (`{sh(key)[:60]}`)")
                continue
            par_expr = key.value
            nonnull = in_map = False
            bad_here = False
            guard_ids = {id(a) for a, _ in stmt_atoms} if guard_benign else set()
            if guard_benign and guard_implies_parent:
                nonnull = True              # the statement only runs for source tasks that have a parent (_skip_verdict)
            for atom, pol in conds:
                txt = f"`{'' if pol else 'not '}{sh(atom)[:60]}`"
                if id(atom) in guard_ids and not same(atom, par_expr) and not match("$p is not None", atom) and not match("$p is None", atom):
                    continue                # emptiness tests of the source task's relations, judged as a whole by _skip_verdict
                if same(atom, par_expr):
                    if pol:
                        nonnull = True
                    else:
                        rel_bad('refute', f"the parent lookup runs under {txt}, i.e. when the source task has NO parent (inverted test)")
                        bad_here = True
                    continue
                if same(atom, key0) or same(atom, key) or (match("bool($k)", atom) and (same(atom.args[0], key0) or same(atom.args[0], key))):
                    # the truth value of an ID decides whether the parent is assigned
                    rel_bad('refute', f"the parent of the copy is assigned only under the truth value of the parent's id "
                                      f"(`{'' if pol else 'not '}{self.text(atom)[:50]}`): ids are opaque values, 0 and '' are valid ids, so the "
                                      f"children of a task with a falsy id are never attached to its copy and drop out of the new WBS; test "
                                      f"`is not None` (or the parent task itself)")
                    bad_here = True
                    continue
                m = match("$p is not None", atom) or match("$p is None", atom)
                if m and id_nullable and same(m['p'], key0):
                    if isinstance(atom.ops[0], ast.IsNot) == pol:
                        nonnull = True
                    else:
                        rel_bad('refute', f"the parent lookup runs under {txt}, i.e. when the source task has NO parent (inverted test)")
                        bad_here = True
                    continue
                if m and same(m['p'], par_expr):
                    if isinstance(atom.ops[0], ast.IsNot) == pol:
                        nonnull = True
                    else:
                        rel_bad('refute', f"the parent lookup runs under {txt}, i.e. when the source task has NO parent (inverted test)")
                        bad_here = True
                    continue
                m = match("$k in $m", atom) or match("$k not in $m", atom)
                if m and (same(m['k'], key) or same(m['k'], key0)) and \
                        (L.is_map(m['m']) or L.lab(m['m'], cn, {}).kind in ('SRCMAP', 'SRCKEYS')):
                    # `pid in <clone map>` / `pid in <selection by id>`: every selected id has a copy in the clone map
                    if isinstance(atom.ops[0], ast.In) == pol:
                        in_map = True
                        if id_nullable and same(m['k'], key0):
                            nonnull = True          # None is no key of the map: the test also says that there is a parent
                    else:
                        rel_bad('refute', f"the parent is looked up only under {txt}, i.e. when its id is NOT in the clone map")
                        bad_here = True
                    continue
                rel_bad('undecided', f"unrecognised condition {txt} on the parent rebuild")
                bad_here = True
            if bad_here:
                continue
            if not nonnull:
                rel_bad('refute', f"`{sh(key)[:60]}` is evaluated without testing that the source task has a parent: root tasks have "
                                  f"parent None")
            elif is_sub and not in_map:
                rel_bad('refute', f"`{sh(e)[:60]}` subscripts the clone map with the parent's id: for subtree() the parent of a given "
                                  f"root is a non-selected member, so this raises KeyError (expected map.get(..) -> None)")
        if prov_ok and rel_ok and not found:
            return 'none-only'          # `<copy>.parent = None` (the else-branch of an if/else form): judged over all parent stores
        if prov_ok:
            self.site(f, st, "copy.parent = map.get(src.parent.id) if src.parent else None", 'receivers')
        if prov_ok and rel_ok:
            self.site(f, st, "parent rebuilt from the source's parent", 'relations')
        return prov_ok and rel_ok

    def _list_rhs(self, st, tgt, rel, rhs, cn, origin) -> bool:
        """`<copy>.<rel> = <rhs>` for the three list relations"""
        f, L = self.f, self.L
        sh = L.short
        rel_ok = True

        def rel_bad(kind, msg):
            nonlocal rel_ok
            rel_ok = False
            (self.refute if kind == 'refute' else self.undecided)(f, st, st, msg, 'relations')

        comp, bad = strip_seq_wrappers(rhs)
        if bad:
            rel_bad('refute', f"`{rel}` of the copy is passed through {'/'.join(bad)}(): the source's list order is not preserved")
        if not isinstance(comp, (ast.ListComp, ast.GeneratorExp)) or len(comp.generators) != 1 or \
                not isinstance(comp.generators[0].target, ast.Name):
            if L.lab(rhs, cn, {}).kind in SOURCEISH:
                self.refute(f, st, st, f"`{src(tgt)}` is assigned `{sh(rhs)[:60]}`: tasks of the source WBS, not clone-map lookups; the "
                                       f"setter rewires the source tasks", 'receivers')
            else:
                self.undecided(f, st, st, f"`{rel}` of the copy is not a single comprehension of clone-map lookups over the source's list",
                               'receivers')
            return False
        g = comp.generators[0]
        x = g.target.id
        # ---- provenance of the elements
        ident = self._identity_element(L, comp.elt, x, st, rel) if rel in DEP_RELS else None
        if ident == 'bad':
            self._identity_seen.add(rel)
            return False
        lk = ident[0] if ident else self._map_lookup(L, comp.elt)
        if ident:
            self._identity_seen.add(rel)
        if lk is None or not match(f"{x}.id", lk[0]):
            el = L.lab(comp.elt, cn, {x: Lab('LINK')})
            if isinstance(comp.elt, ast.Name) and comp.elt.id == x or el.kind in SOURCEISH:
                self.refute(f, st, st, f"`{rel}` of the copy is built from the source's linked tasks themselves (`{sh(comp.elt)}` for "
                                       f"`{sh(comp)[:70]}`), not from clone-map lookups `map[x.id] ... if x.id in map`: links to selected "
                                       f"tasks are not mapped to their copies (they are dropped or point into the source WBS)", 'receivers')
            elif match(f"{x}.clone($*a)", comp.elt):
                self.refute(f, st, st, f"`{rel}` of the copy contains additional fresh clones (`{sh(comp.elt)}`) instead of the clone-map "
                                       f"entries: the copies are not the ones placed in the new WBS", 'receivers')
            else:
                self.undecided(f, st, st, f"element `{sh(comp.elt)[:60]}` of the rebuilt `{rel}` is not `map[x.id]`", 'receivers')
            return False
        self.site(f, st, f"copy.{rel} = [x if x.wbs != self else map[x.id] for x in ...]" if ident else
                  f"copy.{rel} = [map[x.id] for x in ...]", 'receivers')
        # ---- faithfulness: same relation of the same task, order, filters
        it, bad = strip_seq_wrappers(g.iter)
        if bad:
            rel_bad('refute', f"`{rel}` of the copy is built from {'/'.join(bad)}(<source list>): the source's list order is not preserved")
        # a pre-filtered view of the source list (`part = [y for y in S.R if C(y)]`, hoisted or inline): its filters are filters
        # of the rebuild
        pre_ifs = []
        depth = 0
        while isinstance(it, (ast.ListComp, ast.GeneratorExp)) and len(it.generators) == 1 and depth < 3 and \
                isinstance(it.generators[0].target, ast.Name) and isinstance(it.elt, ast.Name) and it.elt.id == it.generators[0].target.id:
            ig = it.generators[0]
            pre_ifs += [_rename(c, ig.target.id, x) for c in ig.ifs]
            it, b2 = strip_seq_wrappers(ig.iter)
            if b2:
                rel_bad('refute', f"`{rel}` of the copy is built from {'/'.join(b2)}(<source list>): the source's list order is not preserved")
            depth += 1
        if not isinstance(it, ast.Attribute):
            rel_bad('undecided', f"`{rel}` of the copy iterates `{sh(g.iter)[:60]}`, not a relation of the source task")
            return False
        sl = L.lab(it.value, cn, {})
        if sl.kind != 'SRC':
            rel_bad('undecided', f"cannot show that `{sh(it.value)[:60]}` is the source task of the copy")
            return False
        if it.attr != rel:
            rel_bad('refute', f"`{rel}` of the copy is rebuilt from the source's `{it.attr}` (expected the relation of the same name)")
        if sl.origin is None or sl.origin != origin:
            rel_bad('refute', f"`{rel}` of the copy of one task is rebuilt from another task's list (`{sh(it)[:60]}`)")
        has_in = False
        if ident:
            # outside tasks as themselves, selected members as their clones, unselected members dropped:
            # the filter must be equivalent to  <x outside>  or  x.id in <clone map>
            has_in = True
            v = self._keep_formula(L, list(g.ifs) + pre_ifs, x, cn, rel)
            own = ident[3]
            if isinstance(v, tuple):
                rel_bad(v[0], f"`{rel}` of the copy: {v[1]}")
            elif v(False, False) and own(False, False):
                rel_bad('refute', f"`{rel}` of the copy: a link to a NON-selected member of the source is neither left out nor mapped - "
                                  f"`{sh(comp.elt)[:70]}` hands the live source task itself to the copy (the element test treats "
                                  f"'not selected' like 'outside'): the copy is wired into the source WBS; outside is `{x}.wbs != self` "
                                  f"only, non-selected members must be filtered out (`if {x}.wbs != self or {x}.id in {self.mapvar}`)")
            elif v(False, True) and own(False, True):
                rel_bad('refute', f"`{rel}` of the copy: a selected member is handed to the copy as itself (`{sh(comp.elt)[:70]}`), not as "
                                  f"its clone: the copy is wired into the source WBS")
            elif (v(True, False) and not own(True, False)) or (v(True, True) and not own(True, True)):
                self._outside_by_id.append((st, rel, sh(comp.elt)[:70]))
                rel_bad('refute', f"`{rel}` of the copy: a task OUTSIDE the source WBS is looked up by its id among the member clones "
                                  f"(`{sh(comp.elt)[:70]}`): it is replaced by a member's clone with the same id or raises KeyError; "
                                  f"outside link ends must be handed over as themselves")
            else:
                txt = ' and '.join(sh(c) for c in list(g.ifs) + pre_ifs)[:90] or '<no filter>'
                if not v(True, False) or not v(True, True):
                    rel_bad('refute', f"`{rel}` of the copy is filtered by `{txt}`, which leaves out tasks OUTSIDE the source WBS: those "
                                      f"links are dropped instead of being kept on the same outside task (expected `{x}.wbs != self or "
                                      f"{x}.id in {self.mapvar}`)")
                if not v(False, True):
                    rel_bad('refute', f"`{rel}` of the copy is filtered by `{txt}`, which leaves out selected members: links among the "
                                      f"copied tasks are dropped (expected `{x}.wbs != self or {x}.id in {self.mapvar}`)")
                if v(False, False):
                    rel_bad('refute', f"`{rel}` of the copy is filtered by `{txt}`, which lets a NON-selected member of the source through: "
                                      f"`{sh(ident[2])[:40]}` raises KeyError / yields None for it instead of the link being left out "
                                      f"(expected `{x}.wbs != self or {x}.id in {self.mapvar}`)")
        for c in ([] if ident else list(g.ifs) + pre_ifs):
            for atom, pol in facts.split_conj(c, True):
                txt = f"`{'' if pol else 'not '}{sh(atom)[:70]}`"
                m = match("$k in $m", atom) or match("$k not in $m", atom)
                if m and L.is_map(m['m']) and match(f"{x}.id", m['k']):
                    if isinstance(atom.ops[0], ast.In) == pol:
                        has_in = True
                    else:
                        rel_bad('refute', f"`{rel}` keeps only tasks under {txt}, i.e. whose id is NOT in the clone map")
                    continue
                if m and (match(f"{x}.id", m['k']) or (isinstance(m['k'], ast.Name) and m['k'].id == x)) and \
                        L.lab(m['m'], cn, {}).kind in ('SRCMAP', 'SRCS', 'SRCKEYS') and isinstance(atom.ops[0], ast.NotIn) == pol:
                    rel_bad('refute', f"`{src(tgt)}` is assigned only the part of the source's `{rel}` that lies OUTSIDE the selection "
                                      f"({txt}): the assignment replaces the whole list, so links to selected tasks that the mirror "
                                      f"update of the other side had already restored are removed again (and never come back when that "
                                      f"other task was processed earlier); the only filter allowed is `{x}.id in {self.mapvar}`")
                    continue
                if x in {n.id for n in ast.walk(atom) if isinstance(n, ast.Name)}:
                    rel_bad('refute', f"`{rel}` of the copy is additionally filtered by {txt}: links are dropped (or kept) by something "
                                      f"other than `id in clone map`")
                else:
                    rel_bad('undecided', f"unrecognised filter {txt} in the rebuild of `{rel}`")
        if rel_ok and rel in DEP_RELS and not has_in:
            rel_bad('refute', f"`{rel}` of the copy is not filtered by `{x}.id in {self.mapvar}`: a link to a non-selected member of the "
                              f"source raises KeyError / yields None instead of being left out")
        if rel_ok:
            self.site(f, st, f"{rel} rebuilt in source order from the relation of the same name" +
                      (", outside tasks as themselves, members filtered only by id in map" if ident else
                       ", filtered only by id in map" if has_in else ""), 'relations')
            if ident:
                self._identity_rels[rel] = st
            elif rel in DEP_RELS:
                self._lookup_rels[rel] = st
        return rel_ok

    def _list_helper(self, F: Func, L: Labeller, call: ast.AST, cn, map_arg=None):
        """`self.<helper>(args)` where the helper only builds and returns a list with one accumulate loop
               acc = []; for v in <param>: [if A:] acc.append(E1) [elif B: acc.append(E2)]; return acc
        -> the comprehension it computes, in the caller's terms (parameters replaced by the expanded arguments); None otherwise.
        With map_arg: additionally the helper must use the parameter bound to that argument read-only (subscript / get / in)."""
        if not isinstance(call, ast.Call) or call.keywords or any(isinstance(a, ast.Starred) for a in call.args):
            return None
        closure = False
        if isinstance(call.func, ast.Name):
            # local closure of the function:  def link_targets(tasks): ...   (self and the clone map are free variables)
            h = self.prog.funcs.get(F.qual + '.' + call.func.id)
            if h is None or h.kind != 'nested' or len(call.args) != len(h.params) or len(flow_of(F).defs_of(call.func.id)) > 1:
                return None
            closure = True
        else:
            if not (isinstance(call.func, ast.Attribute) and isinstance(call.func.value, ast.Name)
                    and call.func.value.id == F.self_name and F.cls):
                return None
            h = self.prog.find_method(F.cls, unmangle(call.func.attr))
            if h is None or h.kind != 'method' or h is F or len(call.args) != len(h.params) - 1:
                return None
        body = [b for b in h.body if not (isinstance(b, ast.Expr) and isinstance(b.value, ast.Constant))]
        if len(body) != 3 or not isinstance(body[2], ast.Return) or not isinstance(body[2].value, ast.Name) or \
                not isinstance(body[1], ast.For) or any(isinstance(r, ast.Return) for r in ast.walk(body[1])):
            return None
        hl = Labeller(self.ctx, h)
        rn = hl.cfg.node_of(body[2])
        comp = hl._block_accumulator(body[2].value.id, rn) if rn is not None else None
        if comp is None:
            return None
        ps = list(h.params) if closure else list(h.params)[1:]
        if any(len(hl.flow.defs_of(p_)) != 1 for p_ in ps):
            return None
        if closure and (set(ps) & {F.self_name, L.mapvar} or any(
                isinstance(n_, ast.Name) and isinstance(n_.ctx, ast.Store) and n_.id in (F.self_name, L.mapvar) for n_ in ast.walk(h.node))):
            return None
        if map_arg is not None or closure:
            pm = [L.mapvar] if closure else [p_ for p_, a_ in zip(ps, call.args) if a_ is map_arg]
            if len(pm) != 1:
                return None
            par = _parent_map(h.node)
            for n_ in ast.walk(h.node):
                if isinstance(n_, ast.Name) and n_.id == pm[0]:
                    p_ = par.get(id(n_))
                    ok = (isinstance(p_, ast.Subscript) and p_.value is n_ and isinstance(p_.ctx, ast.Load)) or \
                        (isinstance(p_, ast.Compare) and any(c_ is n_ for c_ in p_.comparators)) or \
                        (isinstance(p_, ast.Attribute) and p_.attr == 'get' and isinstance(par.get(id(p_)), ast.Call))
                    if not ok:
                        return None
        from sa.flow import subst
        import copy as _copy
        bind = {} if closure else {h.self_name: ast.Name(id=F.self_name, ctx=ast.Load())}
        for p_, a_ in zip(ps, call.args):
            bind[p_] = a_ if (isinstance(a_, ast.Name) and L.is_map(a_)) else L.expand(a_, cn)
        bound = {n_.id for g_ in comp.generators for n_ in ast.walk(g_.target) if isinstance(n_, ast.Name)}
        if bound & {n_.id for a_ in bind.values() for n_ in ast.walk(a_) if isinstance(n_, ast.Name)}:
            return None                     # the loop variable of the helper would capture a name of the caller
        return subst(_copy.deepcopy(comp), bind)

    def _outside_test(self, e: ast.AST, x: str):
        """e as a test on the linked task x -> 'EXT' (x is outside the source WBS) | 'INT' | 'NONE' (wbs None test) | None"""
        pol = True
        while isinstance(e, ast.UnaryOp) and isinstance(e.op, ast.Not):
            e, pol = e.operand, not pol
        return self._ext_test(e, pol, ast.Name(id=x, ctx=ast.Load()), self.f.self_name)

    def _identity_element(self, L: Labeller, elt: ast.AST, x: str, st, rel: str):
        """element `x if <test> else map[x.id]` (either branch order), <test> a formula over `<x outside>` / `x.id in <map>`
        -> (lookup, 'identity', lookup expr, own(outside, in_map) -> bool) | None (not this form) | 'bad' (verdict recorded)"""
        if not isinstance(elt, ast.IfExp):
            return None
        f = self.f
        isx = lambda e: isinstance(e, ast.Name) and e.id == x
        if isx(elt.body):
            own_first, other = True, elt.orelse
        elif isx(elt.orelse):
            own_first, other = False, elt.body
        else:
            return None
        lk = self._map_lookup(L, other)
        if lk is None or not match(f"{x}.id", lk[0]):
            return None
        cn = L.cfg.node_of(st)
        t = self._keep_formula(L, [elt.test], x, cn, rel)
        if isinstance(t, tuple):
            if t[0] == 'refute':
                self.refute(f, st, elt.test, f"`{rel}` of the copy decides between 'the task itself' and 'its copy' by `{src(elt.test)[:70]}`: "
                                             f"{t[1]}", 'receivers')
            else:
                self.undecided(f, st, elt, f"element `{src(elt)[:70]}` of the rebuilt `{rel}`: {t[1]}", 'receivers')
            return 'bad'
        own = t if own_first else (lambda o, i, t=t: not t(o, i))
        if not own(True, False) and not own(True, True) and own(False, True):
            self.refute(f, st, elt, f"`{rel}` of the copy takes `{src(other)}` for tasks OUTSIDE the source WBS and the task itself for "
                                    f"members (`{src(elt)[:70]}`): the branches are swapped - members are shared with the copy, outside "
                                    f"tasks are looked up by id among the member clones", 'receivers')
            return 'bad'
        return lk, 'identity', other, own

    def _keep_formula(self, L: Labeller, ifs, x: str, cn, rel: str = None):
        """conjunction of the comprehension filters as a function (outside: bool, in_map: bool) -> kept, built from not/and/or
        over `<x outside>` tests and `x.id in <clone map>`; or ('refute'|'undecided', message) for an atom of another kind"""
        def parse(e):
            if isinstance(e, ast.UnaryOp) and isinstance(e.op, ast.Not):
                g_ = parse(e.operand)
                return g_ if isinstance(g_, tuple) else (lambda o, i, g_=g_: not g_(o, i))
            if isinstance(e, ast.BoolOp):
                gs = [parse(v_) for v_ in e.values]
                for g_ in gs:
                    if isinstance(g_, tuple):
                        return g_
                if isinstance(e.op, ast.And):
                    return lambda o, i, gs=gs: all(g_(o, i) for g_ in gs)
                return lambda o, i, gs=gs: any(g_(o, i) for g_ in gs)
            t = self._outside_test(e, x)
            if t == 'EXT':
                return lambda o, i: o
            if t == 'INT':
                return lambda o, i: not o
            if t == 'NONE':
                return ('refute', f"the filter tests `{src(e)}` (wbs against None): detached tasks are outside the source WBS as well, "
                                  f"links to them must be kept; the only owner test allowed is `{x}.wbs != self`")
            for pat_, pos_ in (("$m.get($k) is not None", True), ("$m.get($k) is None", False), ("$m.get($k)", True),
                               ("$m.get($k, None) is not None", True), ("$m.get($k, None) is None", False)):
                mg = match(pat_, e)
                if mg and L.is_map(mg['m']) and match(f"{x}.id", mg['k']):
                    return lambda o, i, pos=pos_: i == pos      # the clone map holds no None values
            m = match("$k in $m", e) or match("$k not in $m", e)
            if m and L.is_map(m['m']) and match(f"{x}.id", m['k']):
                pos = isinstance(e.ops[0], ast.In)
                return lambda o, i, pos=pos: i == pos
            if m and match(f"id({x})", m['k']) and isinstance(m['m'], ast.Name):
                # registry of outside tasks keyed by object identity:  D[id(y)] = y  under  y.wbs != self
                r_ = self._identity_registry(L, m['m'].id, rel)
                if isinstance(r_, tuple):
                    return r_
                if r_:
                    pos = isinstance(e.ops[0], ast.In)
                    return lambda o, i, pos=pos: o == pos
            if m and match(f"{x}.id", m['k']) and not self.registrations:
                ml = L.lab(m['m'], cn, {})
                if ml.kind in ('SRCMAP', 'SRCKEYS') and full_selection(ml) is None:
                    # the clone map holds exactly one clone per selected id: `id in <selection by id>` == `id in <clone map>`
                    pos = isinstance(e.ops[0], ast.In)
                    return lambda o, i, pos=pos: i == pos
            if x in {n.id for n in ast.walk(e) if isinstance(n, ast.Name)}:
                return ('refute', f"additionally filtered by `{src(e)[:70]}`: links are dropped (or kept) by something other than "
                                  f"`{x}.wbs != self or {x}.id in {self.mapvar}`")
            return ('undecided', f"unrecognised filter `{src(e)[:70]}`")
        gs = [parse(c) for c in ifs]
        for g_ in gs:
            if isinstance(g_, tuple):
                return g_
        return lambda o, i: all(g_(o, i) for g_ in gs)

    def _identity_registry(self, L: Labeller, d: str, rel: str):
        """local dict d filled only by `d[id(y)] = y` under `y.wbs != self` for y in the relations of the selected tasks:
        True when `id(x) in d` == `x is outside` for every link end x of relation `rel` of every selected task;
        ('refute', msg) when the scan leaves part of the selection out; None when d is not such a registry"""
        f = self.f
        ds = L.flow.defs_of(d)
        if len(ds) != 1 or ds[0].kind != 'assign' or ds[0].value is None or not (
                isinstance(ds[0].value, ast.Dict) and not ds[0].value.keys or match("dict()", ds[0].value)):
            return None
        fills = self._dict_fills(f, L, d, {id(ds[0].stmt)})
        if not fills:
            return None
        cov = {}
        why = None
        for _, _, stt, k, v in fills:
            cn = L.node(stt)
            if not (isinstance(v, ast.Name) and match(f"id({v.id})", k)) or cn is None:
                return None
            ext = False
            for atom, pol in self._atoms(L, cn):
                t = self._ext_test(atom, pol, v, f.self_name)
                if t == 'EXT':
                    ext = True
                elif v.id in {n.id for n in ast.walk(atom) if isinstance(n, ast.Name)}:
                    return None
            if not ext:
                return None
            fors = L.cfg.enclosing_fors(cn)
            rels = None
            for fo in fors:
                if isinstance(fo.target, ast.Name) and fo.target.id == v.id:
                    rels = _rels_in_iter(L.expand(fo.iter, L.cfg.node_of(fo)))
            if not rels:
                return None
            for t_expr, r in rels:
                tl = L.lab(t_expr, cn, {})
                if tl.kind != 'SRC':
                    return None
                bad = full_selection(tl)
                if bad is None:
                    cov[r] = True
                elif r not in cov:
                    where = src(t_expr)
                    for fo in fors:
                        if isinstance(fo.target, ast.Name) and isinstance(t_expr, ast.Name) and fo.target.id == t_expr.id:
                            where = f"{t_expr.id} in {src(fo.iter)[:50]}"
                    why = (where, bad)
        if rel is None or cov.get(rel):
            return True if rel is not None else None
        if why is not None:
            return ('refute', f"`{d}` registers the outside tasks found while scanning `{why[0]}` only ({why[1]}): an outside "
                              f"{rel[:-1] if rel else 'link end'} of the other selected tasks is not in it, so that link is dropped (or looked "
                              f"up by id among the member clones) instead of being kept")
        return None

    # ---------------------------------------------------------------- (g) outside link ends are handed over by identity (F39)
    def _outside_identity(self):
        """ids are unique inside ONE WBS only (C05): a link end outside the source WBS must reach the copy as itself, never through
        a lookup keyed by its id in the map that holds the member clones"""
        f = self.f
        for F, node, rels, is_call in self.registrations:
            role = '/'.join(rels) if rels else 'tasks'
            what = "setdefault(<x>.id, <x>)" if is_call else "<map>[<x>.id] = <x>"
            self.refute(F, node, f"{what} [outside {role} keyed by id in the clone map]",
                        f"`{src(node)[:70]}` files a task from OUTSIDE the source WBS under its id in the map that holds the member clones, "
                        f"and link ends are then looked up by id. Ids are unique inside one WBS only: an outside task whose id equals a "
                        f"member's id resolves to that member's clone (or the link is lost), two outside tasks with one id collapse, and in "
                        f"subtree() the id of a non-selected member can resolve to an outside task. Hand outside link ends to the copy as "
                        f"themselves: `[x if x.wbs != self else map[x.id] for x in src.{rels[0] if rels else 'predecessors'} "
                        f"if x.wbs != self or x.id in map]`")
        eq = self.prog.find_method('WBS', '__eq__')
        if eq is not None:
            # the owner test `x.wbs != self` is an identity test only as long as WBS does not define equality
            seen_cmp = set()
            for F in {self.f, self.g} | {h for h, _ in self.helpers}:
                for n in ast.walk(F.node):
                    if isinstance(n, ast.Compare) and len(n.ops) == 1 and isinstance(n.ops[0], (ast.Eq, ast.NotEq)):
                        a, b = n.left, n.comparators[0]
                        for x, y in ((a, b), (b, a)):
                            if isinstance(x, ast.Attribute) and x.attr == 'wbs' and isinstance(y, ast.Name) and y.id == F.self_name \
                                    and src(n) not in seen_cmp:
                                seen_cmp.add(src(n))
                                self.refute(F, n, f"<x>.wbs {'!=' if isinstance(n.ops[0], ast.NotEq) else '=='} self [owner test by equality, "
                                                  f"WBS.__eq__ defined]",
                                            f"`{src(n)}` decides whether a linked task is outside the source WBS with `{'!=' if isinstance(n.ops[0], ast.NotEq) else '=='}`, "
                                            f"and WBS defines `__eq__` ({eq.loc()}): the comparison is structural, so a task living in ANOTHER "
                                            f"WBS that merely looks the same (e.g. an earlier clone of the source) counts as a member - its "
                                            f"link is dropped or rewired by id; the owner test must be an identity test (`is not self`)")
        for st_, r_, txt_ in self._outside_by_id:
            self.refute(f, st_, f"<map>[<x>.id] [{r_}: outside link end looked up by id]",
                        f"`{txt_}` resolves a link end of `{r_}` by its id in the map of member clones BEFORE (or without) asking whether it is "
                        f"outside the source WBS: an outside task whose id equals a member's id is replaced by that member's clone")
        for r in DEP_RELS:
            if r in self._identity_rels:
                self.site(f, self._identity_rels[r], f"{r}: outside tasks as themselves, `map[x.id]` only for members (x.wbs == self)")
            elif r in self._lookup_rels:
                if not self.registrations:
                    st_ = self._lookup_rels[r]
                    self.refute(f, st_, f"<map>[<x>.id] [{r}: link end not proven to be a member]",
                                f"`{src(st_)[:80]}` looks EVERY link end up by id among the member clones: an outside task is either dropped "
                                f"or - when its id equals a member's id - replaced by that member's clone; look up members only "
                                f"(`x if x.wbs != self else map[x.id]`)")
            elif not any(c in ('relations', 'receivers') and k in ('refute', 'undecided') for c, k, *_ in self.facts):
                self.undecided(f, f.node, f"outside {r}", f"cannot see how the {r} of the copies are rebuilt: whether outside link ends are "
                                                          f"handed over by identity is not decided")

    # ---------------------------------------------------------------- (e) assembly of the new WBS
    def _assembly(self):
        g, G = self.g, self.G
        roots_p = g.params[1] if len(g.params) > 1 else None
        if self.merged:
            if len(G.flow.defs_of(roots_p)) != 1:
                self.undecided(g, g.node, '__clone', "__clone rebinds its roots parameter")
                return
        else:
            if (self.gmap is None and not self.ret_roots) or self.gcall is None:
                self.undecided(g, g.node, '__clone', "__clone does not bind the result of self.__clone_tasks(..) to a local name")
                return
            a = self.gcall.args
            if len(a) != 1 or not (isinstance(a[0], ast.Name) and a[0].id == roots_p):
                self.undecided(g, self.gcall, self.gcall, "__clone_tasks is not called with the roots given to __clone")
                return
        ctors = [n for n in walk_no_nested(g.node) if isinstance(n, ast.Call) and isinstance(n.func, ast.Name) and n.func.id == 'WBS']
        stop = False
        for c in ctors:
            if c.args or any(k.arg == 'tasks' for k in c.keywords):
                self.refute(g, c, c, f"`{src(c)[:70]}`: WBS(tasks) clones the given tasks once more WITHOUT relations (and kwargs land on "
                                     f"the root sentinel); the copy must be assembled as WBS() followed by `.roots = [...]`")
                stop = True
            elif any(k.arg is None and self._from_own_dict(G, k.value, c) for k in c.keywords):
                self.refute(g, c, c, f"`{src(c)[:70]}` passes the public attributes of the source WBS as keyword arguments to the "
                                     f"constructor: WBS.__init__ hands its kwargs to the hidden root TASK, they do not become attributes of "
                                     f"the new WBS - the copy loses the WBS-level attributes (they must be set on the new WBS one by one)",
                            'wbs-attrs')
                stop = True
            elif any(k.arg is None for k in c.keywords):
                self.undecided(g, c, c, f"`{src(c)[:70]}`: the new WBS is created with `**` arguments the rule cannot enumerate (a `tasks` "
                                        f"entry would clone tasks without relations); keyword arguments only reach the hidden root task")
                stop = True
        if stop:
            return
        stores = []
        for st, tgt, val in facts.attr_stores(g):
            cn = G.cfg.node_of(st)
            rl = G.lab(G.expand(tgt.value, cn), cn, {})
            if tgt.attr == 'roots' and rl.kind == 'FRESHWBS':
                stores.append((st, tgt, cn))
        rets = [n for n in walk_no_nested(g.node) if isinstance(n, ast.Return) and not any(n is r for _, r in self.early)]
        for ifs, r in self.early:
            # an empty copy is right only for an empty selection
            rp = roots_p
            t = ifs.test
            if rp and (match(f"len({rp}) == 0", t) or match(f"not {rp}", t) or match(f"not len({rp})", t) or match(f"len({rp}) < 1", t)
                       or match(f"0 == len({rp})", t)) and len(G.flow.defs_of(rp)) == 1:
                pass
            else:
                self.undecided(g, r, r, f"__clone returns an empty WBS() under `{src(t)[:60]}`, a condition the rule cannot show to mean "
                                        f"'no roots given'")
        if not stores:
            if rets and all(r.value is not None and G.label(r.value).kind == 'FRESHWBS' for r in rets):
                self.refute(g, g.node, 'roots not attached', "__clone returns a fresh WBS() whose roots are never assigned: the copy is empty")
            else:
                self.undecided(g, g.node, '__clone', "no `<WBS()>.roots = [...]` found in __clone")
            return
        for st, tgt, cn in stores:
            if not isinstance(st, ast.Assign) or len(st.targets) != 1:
                self.undecided(g, st, st, "roots of the new WBS are not set by a single plain assignment")
                continue
            if self._gconds(cn):
                self.undecided(g, st, st, "roots of the new WBS are attached only under a condition")
                continue
            rhs = G.expand_acc(st.value, cn)
            g2, G2, st2, cn2, rp2, val2 = g, G, st, cn, roots_p, st.value
            inner0, bad0 = strip_seq_wrappers(rhs)
            if self.ret_roots and match("self._WBS__clone_tasks($a)", inner0):
                if bad0:
                    self.refute(g, st, st.value, f"the roots of the copy are passed through {'/'.join(bad0)}(): root order of the source is lost")
                    continue
                # __clone_tasks itself returns the roots of the copy: judge its return expression, in its own terms
                fr = [n for n in walk_no_nested(self.f.node) if isinstance(n, ast.Return)]
                rn = self.L.cfg.node_of(fr[0]) if len(fr) == 1 else None
                if rn is None or fr[0].value is None or self.L.cfg.conditions(rn) or len(self.f.params) < 2 or \
                        len(self.L.flow.defs_of(self.f.params[1])) != 1:
                    self.undecided(self.f, self.f.node, 'return', "__clone_tasks hands back the roots of the copy through more than one / a "
                                                                  "conditional return, or rebinds its roots parameter")
                    continue
                g2, G2, st2, cn2, rp2, val2 = self.f, self.L, fr[0], rn, self.f.params[1], fr[0].value
                rhs = G2.expand_acc(val2, cn2)
            comp, bad = strip_seq_wrappers(rhs)
            if bad:
                self.refute(g2, st2, val2, f"the roots of the copy are passed through {'/'.join(bad)}(): root order of the source is lost")
                continue
            if not isinstance(comp, (ast.ListComp, ast.GeneratorExp)) or len(comp.generators) != 1:
                el = G2.lab(rhs, cn2, {})
                if el.kind in SOURCEISH:
                    self.refute(g2, st2, val2, f"the new WBS receives `{src(rhs)[:60]}`: tasks of the source WBS, not their copies "
                                                 f"(the source loses them)")
                else:
                    self.undecided(g2, st2, val2, "roots of the new WBS are not a single comprehension over the given roots")
                continue
            gen = comp.generators[0]
            it, bad = strip_seq_wrappers(gen.iter)
            if bad:
                self.refute(g2, st2, gen.iter, f"the roots of the copy are taken from {'/'.join(bad)}(roots): root order of the source is lost")
                continue
            mt = match("_to_list($r)", it)
            if mt:                                       # __clone normalises its parameter first: roots = _to_list(roots)
                it = strip_seq_wrappers(mt['r'])[0]
            if not (isinstance(it, ast.Name) and it.id == rp2):
                il = G2.lab(it, cn2, {})
                if il.kind in ('MAPPEDS', 'MAP'):
                    self.refute(g2, st2, val2, f"the roots of the copy are taken from the entries of the clone map (`{G2.short(it)[:50]}`), "
                                                 f"not from the given roots: the map also holds tasks OUTSIDE the source WBS as themselves, "
                                                 f"so a parentless outside task is moved into the copy (and root order is that of the map)")
                elif il.kind in ('SRCS', 'MEMBERS', 'LINKS'):
                    self.refute(g2, st2, val2, f"the roots of the copy range over `{G2.short(it)[:50]}`, not over exactly the roots handed "
                                                 f"to __clone_tasks")
                else:
                    self.undecided(g2, st2, gen.iter, "the roots of the copy do not range over the roots handed to __clone_tasks")
                continue
            if gen.ifs:
                self.refute(g2, st2, val2, "the roots of the copy are filtered: some of the given roots are cloned but never attached")
                continue
            env = {}
            G2.bind(gen.target, Lab('SRCS', {'ROOTS'}), env)
            el = G2.lab(comp.elt, cn2, env)
            if el.kind == 'CLONE' and isinstance(gen.target, ast.Name) and el.origin == gen.target.id:
                self.site(g2, st2, "WBS().roots = [map[r.id] for r in roots]")
            elif el.kind in SOURCEISH:
                self.refute(g2, st2, comp.elt, "the new WBS receives the source's root tasks themselves, not their copies: the source "
                                             "WBS loses its roots")
            elif el.kind == 'NEWCLONE':
                self.refute(g2, st2, comp.elt, "the new WBS receives additional fresh clones (without relations), not the clone-map entries")
            else:
                self.undecided(g2, st2, comp.elt, "element of the new roots is not `map[r.id]`")
                continue
            recv = G.expand(tgt.value, cn)
            for r in rets:
                rv = G.expand(r.value, G.cfg.node_of(r)) if r.value is not None else None
                if rv is not None and same(rv, recv) or (isinstance(r.value, ast.Name) and isinstance(tgt.value, ast.Name)
                                                         and r.value.id == tgt.value.id):
                    self.site(g, r, "returns the assembled WBS")
                else:
                    self.undecided(g, r, r, "__clone returns something other than the WBS whose roots were attached")
        if not self.merged:
            self._uses(g, G, g.node, None, False)          # merged: already enumerated by the 'externals' clause

    def _from_own_dict(self, G: Labeller, e: ast.AST, at_expr) -> bool:
        """e (a `**` argument) is a dict built from the source's own attributes: {k: v for k, v in self.__dict__.items() ...}"""
        cn = G.node(at_expr)
        x = G.expand(e, cn) if cn is not None else e
        if match("dict($d)", x):
            x = x.args[0]
        if isinstance(x, ast.DictComp) and len(x.generators) == 1:
            ds = _dict_source(x.generators[0].iter)
            return ds is not None and isinstance(ds[0], ast.Name) and ds[0].id == self.g.self_name
        ds = _dict_source(x) if not isinstance(x, ast.DictComp) else None
        return ds is not None and isinstance(ds[0], ast.Name) and ds[0].id == self.g.self_name

    def _own_public_state(self, cls: str, clause: str, loop_txt: str):
        """the attribute copy loop hands every PUBLIC instance attribute to the copy by reference.  Code of the class itself must
        therefore keep no mutable / task-holding state in a public attribute (caches, indexes): the copy would share it"""
        props = self._property_names(cls)
        n_fn, bad = 0, False
        for F in list(self.prog.funcs.values()):
            if F.cls != cls or F.kind not in ('method', 'getter', 'setter') or not F.self_name:
                continue
            n_fn += 1
            for st, attr, val in _self_stores(F):
                if attr.startswith('_') or attr in props:
                    continue
                ty = None
                try:
                    ty = self.ctx.typer.expr_type(val, F)
                except Exception:
                    pass
                holds_tasks = bool(ty) and 'Task' in str(ty)
                if _is_mutable_init(val) or holds_tasks:
                    bad = True
                    self.refute(F, st, f"self.{attr} [own mutable state in a public attribute]",
                                f"`{src(st)[:60]}` in {cls}.{F.name}: {cls} keeps " + ("task objects" if holds_tasks else "a mutable container") +
                                f" of its own in the PUBLIC attribute `{attr}`; {loop_txt} hands the very same object to the copy, so the "
                                f"copy answers from (and writes into) the source's state - e.g. an id index returns the SOURCE's tasks; "
                                f"internal state belongs in a private attribute (skipped by the loop)", clause)
        if n_fn and not bad:
            self.site(self.g, self.g.node, f"{cls} code keeps no mutable / task-holding state of its own in a public attribute", clause)

    def _only_early_bypass(self, cl) -> bool:
        """the copy loop sits at the top level of __clone (directly or through the helper call) and is skipped by nothing but the
        early `return WBS()` exits"""
        g = self.g
        anchor = cl.for_node if cl.via is None else cl.via
        cfg = cfg_of(g)
        n = cfg.node_of(anchor) if cl.via is None else cfg.node_containing(anchor)
        if n is None or cfg.enclosing_loops(n) or self._gconds(n):
            return False
        if cl.via is not None:
            c = cfg_of(cl.func)
            if not c.dominates(c.node_of(cl.for_node), c.exit):
                return False
        top = None
        for stt in g.node.body:
            if any(x is anchor for x in ast.walk(stt)):
                top = stt
        return top is not None

    def _property_names(self, cls: str) -> set:
        """names that are properties of the class: never keys of an instance __dict__, so excluding them from a copy loop is a no-op"""
        try:
            ci = self.prog.cls(cls)
        except Exception:
            return set()
        return set(getattr(ci, 'getters', {}) or {}) | set(getattr(ci, 'setters', {}) or {})

    # ---------------------------------------------------------------- (e) public attributes of the WBS
    def _wbs_attrs(self):
        g = self.g
        ok_in = {}
        seen_any = False
        fine_loops = []
        for F in (g, self.e_clone, self.e_subtree):
            good = False
            for cl in find_copy_loops(self.ctx, F):
                seen_any = True
                if not (isinstance(cl.src_caller, ast.Name) and cl.src_caller.id == F.self_name):
                    continue
                o = _Recorder(self, 'wbs-attrs')
                if F is g and cl.func is g:
                    cl.header_conds = [c for c in cl.header_conds if id(c[0]) not in self._early_ids]
                fine = report_copy_loop(o, F, cl, "WBS attribute", self._property_names('WBS'))
                dst = cl.dst_caller
                dl = Labeller(self.ctx, F, self.gmap if F is g else None).label(dst)
                rets = [n for n in walk_no_nested(F.node) if isinstance(n, ast.Return) and not (F is g and any(n is r for _, r in self.early))]
                to_ret = all(isinstance(r.value, ast.Name) and isinstance(dst, ast.Name) and r.value.id == dst.id for r in rets)
                if fine and not (to_ret and (dl.kind == 'FRESHWBS' or F is not g)):
                    self.undecided(F, cl.call, cl.call, "the WBS attribute copy loop does not write to the returned new WBS")
                    fine = False
                if fine and not cl.on_every_path(F) and not (F is g and self.early and self._only_early_bypass(cl)):
                    self.undecided(cl.func, cl.for_node, cl.for_node.iter, "the WBS attribute copy loop is not on every path to the return")
                    fine = False
                if fine:
                    self.site(cl.func, cl.for_node, "for k in self.__dict__: if not k.startswith('_'): new.__setattr__(k, self.__getattribute__(k))")
                    good = True
                    if F is g:
                        fine_loops.append(cl)
            ok_in[F.qual] = good
        self._own_public_state('WBS', 'wbs-attrs', "the loop in __clone that carries the public attributes of the source WBS over")
        gcfg = cfg_of(g)
        for ifs, r in self.early:
            if isinstance(r.value, ast.Name) and any(
                    isinstance(cl.dst_caller, ast.Name) and cl.dst_caller.id == r.value.id and
                    gcfg.dominates(gcfg.node_of(cl.for_node) if cl.via is None else gcfg.node_containing(cl.via), gcfg.node_of(r))
                    for cl in fine_loops):
                continue                    # the early exit hands back the WBS that already went through the copy loop
            self.refute(g, r, r, f"`if {src(ifs.test)[:60]}: return {src(r.value)}` leaves __clone before the loop that copies the public attributes of "
                                 f"the source WBS: on that path clone()/subtree() return a WBS without the WBS-level attributes of the "
                                 f"source (the copy must carry them for every selection, also an empty one)")
        problems = any(k in ('refute', 'undecided') for c, k, *_ in self.facts if c == 'wbs-attrs')
        for E in (self.e_clone, self.e_subtree):
            rets = [n for n in walk_no_nested(E.node) if isinstance(n, ast.Return)]
            ex = Expander(self.prog, E, self.ctx.typer)
            via_g = bool(rets) and all(r.value is not None and match("self._WBS__clone($*a)", ex.expand(r.value, cfg_of(E).node_of(r)))
                                       for r in rets)
            covered = ok_in[E.qual] or (via_g and ok_in[g.qual])
            if covered:
                self.site(E, E.node, f"{E.name}() returns a WBS that went through the attribute copy loop")
            elif not problems:
                others = [x.name for x in (self.e_clone, self.e_subtree) if x is not E and ok_in[x.qual]]
                skip = {self.f.qual, 'wbs.WBS.__init__', 'task.Task.__init__', 'task.Task.clone', 'task.Task.to_dict'}
                mentions = copy_idiom_in_reach(self.ctx, E, skip | ({g.qual} if seen_any else set()))
                if mentions and not ok_in[g.qual]:
                    self.undecided(E, E.node, f"{E.name} attributes", "attribute copy written in an idiom the rule does not recognise")
                else:
                    self.refute(E, E.node, f"{E.name}: WBS attributes not copied",
                                f"{E.name}() returns a WBS that never passes through a loop copying the public attributes of the source "
                                f"WBS" + (f" (the loop only runs for {', '.join(others)}(): it is not on the shared __clone path)"
                                          if others else ""))

    # ---------------------------------------------------------------- (f) no store / mutation through a source object
    def _no_source_writes(self):
        chain = {self.f.qual, self.g.qual}
        if self.merged:
            self.site(self.g, self.g.node, "__clone_tasks is folded into __clone: one function carries both roles")
        for F, L in ([] if self.merged else [(self.f, self.L)]) + [
                (self.g, self.G), (self.e_clone, Labeller(self.ctx, self.e_clone)),
                (self.e_subtree, Labeller(self.ctx, self.e_subtree, None, {}))] + list(self.helpers):
            n_ok = 0
            for w in self.eff.direct_writes(F):
                if w.root == 'fresh':
                    n_ok += 1
                    continue
                recv = w.recv
                if recv is not None and isinstance(recv, ast.Name) and recv.id == L.mapvar:
                    continue                                  # judged by the 'externals' clause
                rl = L.label(recv) if recv is not None else UNKNOWN
                if rl.kind in COPYISH:
                    n_ok += 1
                elif rl.kind in SOURCEISH or (rl.kind in ('MAPPED', 'MAPPEDS') and rl.origin == 'link'):
                    self.refute(F, w.node, w.node, f"`{src(w.node)[:80]}` writes `{unmangle(str(w.field))}` through `{src(recv)[:50]}`, "
                                                   f"which is a task / list of the source side, not a copy: cloning modifies the source")
                else:
                    self.undecided(F, w.node, w.node, f"cannot classify the receiver of the write `{src(w.node)[:80]}`")
            for ci in self.ctx.cg.calls_in(F):
                W = set()
                for t in ci.targets:
                    W |= self.eff.writes_star(t)
                if not W or any(t.qual in chain for t in ci.targets):
                    continue
                if any(t.qual == 'task.Task.clone' for t in ci.targets):
                    shape = task_clone_shape(self.ctx)
                    if shape.pure:
                        n_ok += 1
                    elif shape.pure is None:
                        self.undecided(F, ci.node, ci.node, "Task.clone is built in an idiom the rule does not recognise: cannot show "
                                                            "that it leaves the source task unchanged")
                    # pure is False: reported by the 'fields' clause
                    continue
                if ci.kind == 'ctor':
                    n_ok += 1
                    continue
                node = ci.node
                recv = node.value if isinstance(node, ast.Attribute) else (
                    node.func.value if isinstance(node, ast.Call) and isinstance(node.func, ast.Attribute) else
                    getattr(node, 'left', getattr(node, 'target', None)))
                if isinstance(recv, ast.Attribute) and ci.kind == 'operator' and isinstance(node, ast.AugAssign):
                    recv = recv.value
                stg = [x for x in self.staging_calls if x[0] is node]
                if stg and ci.kind == 'call' and len(ci.targets) == 1 and ci.targets[0] is stg[0][1]:
                    # helper that builds the outside-task dict: its only writes go into its own accumulator
                    hW = self.eff.writes_star(stg[0][1])
                    if all(root in (f"param:{stg[0][2]}", 'fresh') for _, root in hW):
                        n_ok += 1
                        continue
                if ci.kind == 'call' and isinstance(node, ast.Call):
                    # translate the callee's write roots (self / param:p) into the caller's expressions
                    written, opaque = [], False
                    for callee in ci.targets:
                        params = list(callee.params)
                        args = list(node.args)
                        if callee.kind in ('method', 'getter', 'setter') and isinstance(node.func, ast.Attribute):
                            args = [node.func.value] + args
                        bind = dict(zip(params, args)) if not any(isinstance(a, ast.Starred) for a in args) else {}
                        for k in node.keywords:
                            if k.arg:
                                bind[k.arg] = k.value
                        for fld, root in self.eff.writes_star(callee):
                            for part in (root[6:].split(',') if root.startswith('mixed:') else [root]):
                                nm = callee.self_name if part == 'self' else (part[6:] if part.startswith('param:') else None)
                                if nm is not None and nm in bind:
                                    if not any(x is bind[nm] for x in written):
                                        written.append(bind[nm])
                                else:
                                    opaque = True
                    written = [x for x in written if not (L.is_map(x) or self.eff.container_root(x, F) == 'fresh')]
                    labs = [(x, L.label(x)) for x in written]
                    bad = [(x, l) for x, l in labs if l.kind in SOURCEISH or (l.kind in ('MAPPED', 'MAPPEDS') and l.origin == 'link')]
                    if bad:
                        self.refute(F, node, node, f"`{src(node)[:70]}` modifies state of `{src(bad[0][0])[:50]}`, a task / list / WBS of "
                                                   f"the source side: cloning modifies the source")
                    elif opaque or any(l.kind not in COPYISH for x, l in labs):
                        self.undecided(F, node, node, f"state-changing call `{src(node)[:70]}` writes to an object the rule cannot classify")
                    else:
                        n_ok += 1
                    continue
                rl = L.label(recv) if recv is not None else UNKNOWN
                if rl.kind in COPYISH:
                    n_ok += 1
                elif rl.kind in SOURCEISH or (rl.kind in ('MAPPED', 'MAPPEDS') and rl.origin == 'link'):
                    self.refute(F, node, node, f"`{src(node)[:70]}` ({ci.kind} {ci.name}) mutates relation/owner state through "
                                               f"`{src(recv)[:50]}`, a task / list of the source side: cloning modifies the source")
                else:
                    self.undecided(F, node, node, f"state-changing {ci.kind} `{src(node)[:70]}` on a receiver the rule cannot classify")
            self.site(F, F.node, f"{n_ok} store/setter/mutator site(s), all on copies or fresh objects")

    # ---------------------------------------------------------------- Task.clone
    def _fields(self):
        _fields(self.ctx, _Recorder(self, 'fields'))

    # ---------------------------------------------------------------- once
    def _once(self):
        f, g = self.f, self.g
        clones = []
        for F in ((g,) if self.merged else (f, g)) + (self.e_clone, self.e_subtree):
            for c in facts.calls_named(F, 'clone'):
                if isinstance(c.func, ast.Attribute):
                    clones.append((F, c))
        mapdef = self.L.flow.defs_of(self.mapvar)[0] if self.mapvar and self.L.flow.defs_of(self.mapvar) else None
        creation = getattr(self, 'creation', None)
        cstmt = None
        if creation is not None:
            cstmt = next((n for n in walk_no_nested(f.node) if isinstance(n, ast.Assign) and n.targets and n.targets[0] is creation), None)
        in_map = [(F, c) for F, c in clones if mapdef is not None and mapdef.value is not None and
                  (any(x is c for x in ast.walk(mapdef.value)) or (cstmt is not None and any(x is c for x in ast.walk(cstmt.value))))]
        for F, c in clones:
            if (F, c) in in_map:
                continue
            L = self.L if F is f else (self.G if F is g else Labeller(self.ctx, F))
            cn = L.node(c)
            rl = L.lab(L.expand(c.func.value, cn), cn, {}) if cn is not None else UNKNOWN
            if rl.kind in ('SRC', 'LINK', 'UNKNOWN') and not isinstance(c.func.value, ast.Name):
                self.undecided(F, c, c, "additional clone() call whose receiver the rule cannot classify")
            elif rl.kind in SOURCEISH or rl.kind == 'UNKNOWN':
                self.refute(F, c, c, f"`{src(c)[:60]}`: a second clone() of a task on the clone path; only the copy stored in the clone "
                                     f"map takes part in the relation rebuild, any other copy has no relations")
        if len(in_map) == 1 and (cstmt is not None or isinstance(mapdef.value, ast.DictComp) and len(mapdef.value.generators) == 1):
            self.site(f, in_map[0][1], "the only clone() on the path: value of the clone-map comprehension (one per id)")
        elif mapdef is not None:
            self.undecided(f, mapdef.stmt, mapdef.stmt, "clone() is not called exactly once inside the clone-map comprehension")
        calls = facts.calls_named(g, '__clone_tasks')
        if self.merged:
            mn = mapdef.node if mapdef is not None else None
            if mn is not None and not self._gconds(mn) and not self.G.cfg.enclosing_loops(mn):
                self.site(g, mapdef.stmt, "the clone map is built once, inside __clone itself")
            else:
                self.undecided(g, g.node, '__clone', "the clone map is created conditionally / inside a loop in __clone")
        elif len(calls) == 1 and not self._gconds(self.G.node(calls[0])):
            self.site(g, calls[0], "__clone_tasks called once")
        else:
            self.undecided(g, g.node, '__clone', f"__clone_tasks is called {len(calls)} times / conditionally in __clone")
        ctors = [n for n in walk_no_nested(g.node) if isinstance(n, ast.Call) and isinstance(n.func, ast.Name) and n.func.id == 'WBS'
                 and not any(n is r.value for _, r in self.early)]
        if len(ctors) == 1:
            self.site(g, ctors[0], "one WBS() per copy")
        else:
            self.undecided(g, g.node, 'WBS()', f"{len(ctors)} WBS constructor calls in __clone")
        for E, want in ((self.e_clone, 'members'), (self.e_subtree, 'given')):
            ex = Expander(self.prog, E, self.ctx.typer)
            calls = facts.calls_named(E, '__clone')
            rets = [n for n in walk_no_nested(E.node) if isinstance(n, ast.Return)]
            if len(calls) != 1 or len(calls[0].args) != 1 or not rets:
                self.undecided(E, E.node, E.name, f"{E.name}() does not call __clone exactly once with one argument")
                continue
            arg = ex.expand(calls[0].args[0], cfg_of(E).node_containing(calls[0]))
            if want == 'members':
                if match("self.roots", arg) or match("list(self.roots)", arg) or match("self._WBS__root.children", arg):
                    self.site(E, calls[0], "clone() = __clone(self.roots)")
                elif match("self.tasks", arg) or match("self._WBS__root.all_children", arg):
                    self.refute(E, calls[0], calls[0], "clone() hands ALL tasks to __clone as roots: every task becomes a root of the "
                                                       "copy, the hierarchy is flattened")
                else:
                    self.undecided(E, calls[0], calls[0], "clone() does not pass self.roots to __clone")
            else:
                p = E.params[1] if len(E.params) > 1 else None
                cn = cfg_of(E).node_containing(calls[0])
                given, state, bad = self._given_roots(E, arg, p, cn, 0)
                if bad:
                    self.refute(E, calls[0], calls[0], f"subtree() reorders / deduplicates the given roots with {'/'.join(bad)}()")
                elif not given:
                    self.undecided(E, calls[0], calls[0], "subtree() does not pass exactly the given roots to __clone")
                elif state == 'yes':
                    self.site(E, calls[0], "subtree(roots) = __clone(_to_list(roots))")
                else:
                    self._raw_roots(E, calls[0], p)

    def _given_roots(self, E: Func, e: ast.AST, p: str, cn, depth: int):
        """e (argument subtree() hands to __clone, expanded) -> (is exactly the given roots, 'yes' materialised into a list /
        'raw' the caller's object itself on some path, order destroying wrappers)"""
        if depth > 6:
            return False, 'raw', []
        # one-shot views of the given roots: iter(X), (t for t in X), filter(None, X), map(f, X)
        one_shot = None
        if isinstance(e, ast.Call) and isinstance(e.func, ast.Name) and e.func.id == 'iter' and len(e.args) == 1:
            one_shot = e.args[0]
        elif isinstance(e, ast.Call) and isinstance(e.func, ast.Name) and e.func.id == 'filter' and len(e.args) == 2 and \
                isinstance(e.args[0], ast.Constant) and e.args[0].value is None:
            one_shot = e.args[1]
        elif isinstance(e, ast.GeneratorExp) and len(e.generators) == 1 and isinstance(e.generators[0].target, ast.Name) and \
                isinstance(e.elt, ast.Name) and e.elt.id == e.generators[0].target.id and \
                all(match(f"{e.elt.id} is not None", c) for c in e.generators[0].ifs):
            one_shot = e.generators[0].iter
        if one_shot is not None:
            g, _, b = self._given_roots(E, one_shot, p, cn, depth + 1)
            return g, 'raw', b
        inner, bad = strip_seq_wrappers(e)
        wrapped = inner is not e
        if isinstance(inner, ast.Name) and inner.id == p:
            if wrapped:
                return True, 'yes', bad
            # which definitions of the parameter reach the call
            flow = flow_of(E)
            ds = flow.reaching(p, cn) if cn is not None else []
            if not ds:
                return False, 'raw', bad
            state = 'yes'
            for d in ds:
                if d.kind == 'param':
                    if not self._param_is_sequence(E, p, cn, [x for x in ds if x is not d]):
                        state = 'raw'
                elif d.kind == 'assign' and d.value is not None and d.node is not None:
                    g, st, b = self._given_roots(E, d.value, p, d.node, depth + 1)
                    bad = bad + b
                    if not g:
                        return False, 'raw', bad
                    if st != 'yes':
                        state = 'raw'
                else:
                    return False, 'raw', bad
            return True, state, bad
        m = match("_to_list($r)", inner)
        if m:
            g, _, b = self._given_roots(E, m['r'], p, cn, depth + 1)
            return g, 'yes', bad + b
        if isinstance(inner, (ast.List, ast.Tuple)) and len(inner.elts) == 1:
            x = inner.elts[0]
            if isinstance(x, ast.Starred):
                g, _, b = self._given_roots(E, x.value, p, cn, depth + 1)
                return g, 'yes', bad + b
            return isinstance(x, ast.Name) and x.id == p, 'yes', bad        # [roots]: a single task wrapped
        if isinstance(inner, ast.ListComp) and len(inner.generators) == 1 and isinstance(inner.generators[0].target, ast.Name) and \
                isinstance(inner.elt, ast.Name) and inner.elt.id == inner.generators[0].target.id:
            v = inner.elt.id
            if all(match(f"{v} is not None", c) for c in inner.generators[0].ifs):
                g, _, b = self._given_roots(E, inner.generators[0].iter, p, cn, depth + 1)
                return g, 'yes', bad + b
            return False, 'yes', bad
        if isinstance(inner, ast.IfExp):
            a = self._given_roots(E, inner.body, p, cn, depth + 1)
            b = self._given_roots(E, inner.orelse, p, cn, depth + 1)
            sa, sb = a[1], b[1]
            # `roots if isinstance(roots, list) else _to_list(roots)`: the raw branch is taken for real sequences only
            if sa == 'raw' and isinstance(inner.body, ast.Name) and inner.body.id == p and _is_sequence_test(inner.test, p, True):
                sa = 'yes'
            if sb == 'raw' and isinstance(inner.orelse, ast.Name) and inner.orelse.id == p and _is_sequence_test(inner.test, p, False):
                sb = 'yes'
            return a[0] and b[0], 'yes' if sa == sb == 'yes' else 'raw', bad + a[2] + b[2]
        return False, 'raw', bad

    def _param_is_sequence(self, E: Func, p: str, cn, other_defs) -> bool:
        """the parameter value itself reaches the call only when it is a list / tuple: either the call sits under
        `isinstance(p, (list, tuple))`, or the only other definition is `if not isinstance(p, list): p = <...>`"""
        cfg = cfg_of(E)
        for t, pol in cfg.conditions(cn):
            if _is_sequence_test(t, p, pol):
                return True
        if len(other_defs) == 1 and other_defs[0].node is not None:
            conds = cfg.conditions(other_defs[0].node)
            base = cfg.conditions(cn)
            extra = [c for c in conds if not any(c[0] is b[0] and c[1] == b[1] for b in base)]
            if len(extra) == 1 and len(conds) == len(base) + 1 and _is_sequence_test(extra[0][0], p, not extra[0][1]):
                # the parameter survives only on the complementary branch - provided that branch does nothing else to it
                return len(flow_of(E).defs_of(p)) == 2
        return False

    def _raw_roots(self, E: Func, call: ast.Call, p: str):
        """subtree() forwards the caller's `roots` object itself: fine only if __clone materialises it before traversing it"""
        g = self.g
        rp = g.params[1] if len(g.params) > 1 else None
        flow = flow_of(g)
        loads = [n for n in ast.walk(g.node) if isinstance(n, ast.Name) and n.id == rp and isinstance(n.ctx, ast.Load)]
        ds = flow.defs_of(rp) if rp else []
        if rp is None:
            self.undecided(E, call, call, "subtree() passes its argument on unmaterialised and __clone has no roots parameter")
        elif len(ds) == 1:
            if len(loads) >= 2:
                self.refute(E, call, call, f"subtree() hands the caller's `{p}` object (or an iterator over it) to __clone unmaterialised "
                                           f"(no _to_list / list()), and __clone "
                                           f"traverses `{rp}` {len(loads)} times (the clone map, then the roots of the new WBS): a one-shot "
                                           f"iterable (generator, filter/map object, iterator) is exhausted by the first pass, so the copy "
                                           f"silently gets no roots; expected `__clone(_to_list({p}))`")
            else:
                self.undecided(E, call, call, "subtree() passes its argument on unmaterialised; cannot see how often __clone traverses it")
        else:
            cfg = cfg_of(g)
            mats = [d for d in ds if d.kind == 'assign' and d.value is not None and d.node is not None and not cfg.conditions(d.node)
                    and not cfg.enclosing_loops(d.node) and
                    (match(f"_to_list({rp})", d.value) or match(f"list({rp})", d.value) or match(f"tuple({rp})", d.value)
                     or match(f"[*{rp}]", d.value))]
            other = [n for n in loads if not any(any(x is n for x in ast.walk(d.value)) for d in mats)]
            if len(mats) == 1 and len(ds) == 2 and all(
                    cfg.node_containing(n) is not None and flow.unique_def(rp, cfg.node_containing(n)) is mats[0] for n in other):
                self.site(E, call, f"subtree(roots) = __clone(roots); __clone materialises it first (`{src(mats[0].stmt)}`)")
            else:
                self.undecided(E, call, call, "subtree() passes its argument on unmaterialised and __clone rebinds its roots parameter "
                                              "in a way the rule does not follow")


class _Recorder:
    """obligation look-alike that records into a CloneAnalysis clause (lets report_copy_loop serve both users)"""

    def __init__(self, an: CloneAnalysis, clause: str):
        self.an, self.clause = an, clause

    def site(self, f, node=None, note=''):
        self.an.site(f, node, note, self.clause)

    def refute(self, f, node, construct, msg):
        self.an.refute(f, node, construct, msg, self.clause)

    def undecided(self, f, node, construct, msg):
        self.an.undecided(f, node, construct, msg, self.clause)


_ANALYSES: Dict[int, CloneAnalysis] = {}


def analysis(ctx) -> CloneAnalysis:
    a = _ANALYSES.get(id(ctx.prog))
    if a is None or a.prog is not ctx.prog:
        a = CloneAnalysis(ctx)
        _ANALYSES.clear()
        _ANALYSES[id(ctx.prog)] = a
    return a


def clone_provenance(ctx, o, clauses=None):
    """Report the clone-path clauses into obligation `o` (created by the caller with ctx.ob(...)).

    clauses: iterable of clause names out of PROVENANCE_ALL (+ 'once'); default = PROVENANCE_ALL, i.e. (a) map creation,
    (b) externals only via guarded setdefault, (c) receivers/arguments of the relation rebuild, (c/d) relations rebuilt
    faithfully, (e) assembly through a fresh WBS and WBS attribute copy on the shared path, (f) no write through a source
    object.  Further clauses on request: 'fields' (Task.clone itself: Task(...) + generic loop, or copy.copy(self) + reset of
    every relation/owner field) and 'once'.  Sites on today's tree: map 1, externals 2, receivers 4, relations 4, assembly 2,
    wbs-attrs 3, no-source-writes 4 (PROVENANCE_ALL: 20), fields 11, once 5."""
    ctx.assume("ids are unique among the tasks selected for cloning (C05): <selection by id>[t.id] is t")
    ctx.assume("calls that resolve to no function of the package (print / logging) do not modify tasks")
    an = analysis(ctx)
    an.replay(o, set(clauses) if clauses is not None else set(PROVENANCE_ALL))
