"""Reaching definitions over the CFG and symbolic expansion of expressions into value terms.

Variables are local names and dotted access paths rooted at a local name (`_task.start`, `self._list`).
`expand(expr, at)` replaces every variable whose *unique* reaching definition is a plain assignment by the (recursively
expanded) right-hand side; a variable with several reaching definitions, a loop-carried variable, a parameter or a
loop target stays as it is (an opaque atom).  Single-return helper functions are inlined on request.

Soundness caveat (stated in the evidence of every check that uses expansion): attribute paths are assumed not to be
modified through aliases or callees between the definition and the use; rules only expand across straight-line code
of one function and list the paths they expanded.
"""
from __future__ import annotations

import ast
import copy
from typing import Dict, List, Optional, Set, Tuple

from .cfg import CFG, Node, cfg_of
from .model import Func, Program
from .pat import attr_path, same


class Def:
    __slots__ = ('var', 'node', 'value', 'kind', 'stmt')

    def __init__(self, var: str, node: Optional[Node], value: Optional[ast.AST], kind: str, stmt=None):
        self.var = var
        self.node = node        # cfg node (None for parameters)
        self.value = value      # rhs expression for kind == 'assign'
        self.kind = kind        # param | assign | aug | for | with | unpack | other
        self.stmt = stmt

    def __repr__(self):
        return f"<Def {self.var} {self.kind} @{getattr(self.stmt, 'lineno', 0)}>"


def _targets(t: ast.AST) -> List[ast.AST]:
    if isinstance(t, (ast.Tuple, ast.List)):
        out = []
        for e in t.elts:
            out.extend(_targets(e))
        return out
    if isinstance(t, ast.Starred):
        return _targets(t.value)
    return [t]


def _elementwise(value: ast.AST, i: int, n: int) -> Optional[ast.AST]:
    if isinstance(value, (ast.Tuple, ast.List)) and len(value.elts) == n and not any(isinstance(e, ast.Starred) for e in value.elts):
        return value.elts[i]
    if isinstance(value, ast.IfExp):
        a, b = _elementwise(value.body, i, n), _elementwise(value.orelse, i, n)
        if a is not None and b is not None:
            r = ast.IfExp(test=value.test, body=a, orelse=b)
            return ast.copy_location(r, value)
    return None


class Flow:
    def __init__(self, func: Func):
        self.func = func
        self.cfg: CFG = cfg_of(func)
        self.defs: List[Def] = []
        self.node_defs: Dict[int, List[Def]] = {}
        self._collect()
        self._in: Dict[int, Set[int]] = {}
        self._solve()

    # ------------------------------------------------------------ collection
    def _add(self, d: Def):
        self.defs.append(d)
        if d.node is not None:
            self.node_defs.setdefault(d.node.id, []).append(d)

    def _collect(self):
        f = self.func
        self.param_defs = []
        p = f
        # parameters of this function and (for nested functions) free variables are opaque
        for name in f.params:
            d = Def(name, None, None, 'param')
            self._add(d)
            self.param_defs.append(d)
        for n in self.cfg.nodes:
            st = n.ast
            if st is None:
                continue
            if n.kind == 'for':
                for t in _targets(st.target):
                    v = attr_path(t)
                    if v:
                        self._add(Def(v, n, None, 'for', st))
                continue
            if isinstance(st, ast.Assign):
                simple = len(st.targets) == 1 and not isinstance(st.targets[0], (ast.Tuple, ast.List))
                # a, b = x, y   /   a, b = (x, y) if c else (u, v): element-wise values (the right-hand side is evaluated
                # before any target is bound, and the value of a definition is expanded with the facts reaching INTO its node)
                if len(st.targets) == 1 and isinstance(st.targets[0], (ast.Tuple, ast.List)) and \
                        all(isinstance(e, (ast.Name, ast.Attribute)) for e in st.targets[0].elts):
                    elts = st.targets[0].elts
                    vals = [_elementwise(st.value, i, len(elts)) for i in range(len(elts))]
                    if all(v is not None for v in vals):
                        for t, val in zip(elts, vals):
                            v = attr_path(t)
                            if v:
                                self._add(Def(v, n, val, 'assign', st))
                        continue
                for tt in st.targets:
                    for t in _targets(tt):
                        v = attr_path(t)
                        if v:
                            self._add(Def(v, n, st.value if (simple or not isinstance(tt, (ast.Tuple, ast.List))) else None,
                                          'assign' if not isinstance(tt, (ast.Tuple, ast.List)) else 'unpack', st))
            elif isinstance(st, ast.AnnAssign):
                v = attr_path(st.target)
                if v and st.value is not None:
                    self._add(Def(v, n, st.value, 'assign', st))
            elif isinstance(st, ast.AugAssign):
                v = attr_path(st.target)
                if v:
                    self._add(Def(v, n, None, 'aug', st))
            elif isinstance(st, (ast.With, ast.AsyncWith)):
                for it in st.items:
                    if it.optional_vars is not None:
                        for t in _targets(it.optional_vars):
                            v = attr_path(t)
                            if v:
                                self._add(Def(v, n, None, 'with', st))
            elif isinstance(st, ast.ExceptHandler) and st.name:
                self._add(Def(st.name, n, None, 'other', st))
            elif isinstance(st, (ast.FunctionDef, ast.ClassDef)):
                self._add(Def(st.name, n, None, 'other', st))
            # walrus / comprehension variables are expression-local: ignored
        # the value an attribute path has on entry is a definition too (otherwise a store on one branch would look like
        # the unique definition at a join)
        dotted = sorted({d.var for d in self.defs if '.' in d.var})
        for v in dotted:
            d = Def(v, None, None, 'entry')
            self._add(d)
            self.param_defs.append(d)

    def _kills(self, d: Def, var: str) -> bool:
        """does definition d kill variable var"""
        return var == d.var or var.startswith(d.var + '.')

    def _solve(self):
        idx = {id(d): i for i, d in enumerate(self.defs)}
        n_nodes = len(self.cfg.nodes)
        IN: Dict[int, Set[int]] = {n.id: set() for n in self.cfg.nodes}
        OUT: Dict[int, Set[int]] = {n.id: set() for n in self.cfg.nodes}
        entry_defs = {idx[id(d)] for d in self.param_defs}
        OUT[self.cfg.entry.id] = set(entry_defs)
        work = list(self.cfg.nodes)
        while work:
            n = work.pop(0)
            if n is self.cfg.entry:
                new_in = set()
                new_out = set(entry_defs)
            else:
                new_in = set()
                for p in n.pred:
                    new_in |= OUT[p.id]
                new_out = set(new_in)
                for d in self.node_defs.get(n.id, []):
                    new_out = {i for i in new_out if not self._kills(d, self.defs[i].var)}
                for d in self.node_defs.get(n.id, []):
                    new_out.add(idx[id(d)])
            if new_in != IN[n.id] or new_out != OUT[n.id]:
                IN[n.id] = new_in
                OUT[n.id] = new_out
                for s in n.succ:
                    if s not in work:
                        work.append(s)
        self._in = IN
        self._out = OUT

    # ------------------------------------------------------------ queries
    def reaching(self, var: str, at: Node) -> List[Def]:
        return [self.defs[i] for i in sorted(self._in.get(at.id, ())) if self.defs[i].var == var]

    def reaching_after(self, var: str, at: Node) -> List[Def]:
        return [self.defs[i] for i in sorted(self._out.get(at.id, ())) if self.defs[i].var == var]

    def unique_def(self, var: str, at: Node) -> Optional[Def]:
        ds = self.reaching(var, at)
        # a longer path definition is shadowed by a later definition of a prefix (handled by kill); a prefix
        # definition after the path definition kills it, so only exact matches matter here
        if len(ds) == 1:
            return ds[0]
        return None

    def defs_of(self, var: str) -> List[Def]:
        return [d for d in self.defs if d.var == var]

    def same_version(self, var: str, a: Node, b: Node) -> bool:
        """the value of var read at b is the one read at a: a dominates b, and no definition of var (or of a prefix)
        lies on a path from a to b that does not pass through a again"""
        if a is b:
            return True
        if not self.cfg.dominates(a, b):
            return False
        mid = self.cfg.between(a, b)
        for d in self.defs:
            if d.node is not None and (d.node.id in mid) and self._kills(d, var):
                return False
        # a definition made by a itself (e.g. `date += ...` being node a) is before the read at b: fine
        return True

    def no_def_between(self, var: str, a: Node, b: Node, avoid=None) -> bool:
        """no definition of var (or of a prefix) on any path from a to b that avoids re-passing a and the nodes in `avoid`"""
        mid = self.cfg.between(a, b, avoid)
        for d in self.defs:
            if d.node is not None and d.node.id in mid and self._kills(d, var):
                return False
        return True

    def node_of_expr(self, e: ast.AST) -> Optional[Node]:
        return self.cfg.node_containing(e)


_FLOWS: Dict[int, Flow] = {}
_CALLEE_VALUES: Dict[tuple, Optional[ast.AST]] = {}


def flow_of(func: Func) -> Flow:
    k = id(func.node)
    if k not in _FLOWS:
        _FLOWS[k] = Flow(func)
    return _FLOWS[k]


# ---------------------------------------------------------------------------------------------------------------------
BASELINE_GATE = True


class Expander:
    """symbolic expansion of expressions (see module docstring)"""

    def __init__(self, prog: Program, func: Func, typer=None, inline: bool = True, max_depth: int = 12):
        self.prog = prog
        self.func = func
        self.flow = flow_of(func)
        self.typer = typer
        self.inline = inline
        self.max_depth = max_depth
        self.expanded_paths: Set[str] = set()

    def expand(self, expr: ast.AST, at: Optional[Node] = None, depth: int = 0, _seen: Optional[Set[int]] = None,
               stop: Optional[Set[str]] = None) -> ast.AST:
        """returns a new AST; `at` defaults to the node containing expr; names in `stop` are never expanded"""
        if at is None:
            at = self.flow.node_of_expr(expr)
        seen = _seen if _seen is not None else set()
        stop = stop or set()
        return self._x(expr, at, depth, seen, stop)

    def _x(self, e, at, depth, seen, stop):
        if e is None or at is None or depth > self.max_depth:
            return copy.deepcopy(e)
        path = attr_path(e) if isinstance(e, (ast.Name, ast.Attribute)) else None
        if path is not None and isinstance(getattr(e, 'ctx', ast.Load()), ast.Load) and path not in stop \
                and path not in self._mutated_names():
            d = self.flow.unique_def(path, at)
            if d is not None and d.kind == 'assign' and d.value is not None and id(d) not in seen and d.node is not at:
                # the definition must dominate the use (no path bypassing it): unique reaching def guarantees it
                self.expanded_paths.add(path)
                return self._x(d.value, d.node, depth + 1, seen | {id(d)}, stop)
            if d is not None and d.kind == 'aug' and id(d) not in seen and d.node is not at:
                av = self._aug_value(d)
                if av is not None:
                    # `x op= E` outside any cycle: the value is `<x before> op E`, expanded with the facts reaching INTO it
                    self.expanded_paths.add(path)
                    return self._x(av, d.node, depth + 1, seen | {id(d)}, stop)
            if d is None and isinstance(e, ast.Name):
                j = self._conditional_overwrite(path, at, depth, seen, stop)
                if j is not None:
                    return j
            if d is None and isinstance(e, ast.Attribute):
                # no definition of the whole path: expand the base only
                new = copy.copy(e)
                new.value = self._x(e.value, at, depth, seen, stop)
                return new
            if d is None and isinstance(e, ast.Name) and not self.flow.defs_of(e.id):
                mc = self._module_constant(e.id)
                if mc is not None:
                    return mc
            return copy.deepcopy(e)
        if isinstance(e, ast.Name) and isinstance(getattr(e, 'ctx', ast.Load()), ast.Load) and e.id not in stop \
                and e.id in self._mutated_names() and ('acc', e.id) not in seen:
            acc = self._accumulated(e.id, at, depth, seen, stop)
            return acc if acc is not None else copy.deepcopy(e)
        if isinstance(e, ast.Call):
            new = ast.Call(func=self._xfunc(e.func, at, depth, seen, stop),
                           args=[self._x(a, at, depth, seen, stop) for a in e.args],
                           keywords=[ast.keyword(arg=k.arg, value=self._x(k.value, at, depth, seen, stop)) for k in e.keywords])
            ast.copy_location(new, e)
            if self.inline:
                inl = self._inline(e, new, depth)
                if inl is not None:
                    return inl
            return new
        if isinstance(e, (ast.ListComp, ast.SetComp, ast.GeneratorExp, ast.DictComp, ast.Lambda)):
            # expand free variables only: bound variables shadow
            bound = set()
            if isinstance(e, ast.Lambda):
                bound = {a.arg for a in e.args.args}
            else:
                for g in e.generators:
                    for t in _targets(g.target):
                        p = attr_path(t)
                        if p:
                            bound.add(p.split('.')[0])
            new = copy.copy(e)
            st2 = stop | bound
            if isinstance(e, ast.Lambda):
                new.body = self._x(e.body, at, depth, seen, st2)
                return new
            gens = []
            for i, g in enumerate(e.generators):
                g2 = copy.copy(g)
                g2.iter = self._x(g.iter, at, depth, seen, stop if i == 0 else st2)
                g2.ifs = [self._x(c, at, depth, seen, st2) for c in g.ifs]
                gens.append(g2)
            new.generators = gens
            if isinstance(e, ast.DictComp):
                new.key = self._x(e.key, at, depth, seen, st2)
                new.value = self._x(e.value, at, depth, seen, st2)
            else:
                new.elt = self._x(e.elt, at, depth, seen, st2)
            return new
        if isinstance(e, ast.AST):
            new = copy.copy(e)
            for f, v in ast.iter_fields(e):
                if isinstance(v, ast.AST):
                    if isinstance(v, (ast.expr_context, ast.operator, ast.boolop, ast.cmpop, ast.unaryop)):
                        continue
                    setattr(new, f, self._x(v, at, depth, seen, stop))
                elif isinstance(v, list):
                    setattr(new, f, [self._x(x, at, depth, seen, stop) if isinstance(x, ast.AST) and not isinstance(
                        x, (ast.cmpop, ast.expr_context)) else x for x in v])
            return new
        return e

    def _aug_value(self, d):
        """`x op= E` on a plain local name that is not on a cycle of the CFG (so "the value before" is what reaches the
        statement): the expression `x op E`; None otherwise"""
        st = d.stmt
        if not (isinstance(st, ast.AugAssign) and isinstance(st.target, ast.Name)) or d.node is None:
            return None
        if st.target.id in self._mutated_names():
            return None
        cfg = self.flow.cfg
        if cfg.can_reach(d.node, d.node):
            return None
        v = ast.BinOp(left=ast.Name(id=st.target.id, ctx=ast.Load()), op=copy.deepcopy(st.op), right=st.value)
        return ast.copy_location(v, st)

    def _conditional_overwrite(self, var, at, depth, seen, stop):
        """x = A; if c: x = B; ... x ...    ->   (B if c else A);  the special cases `if not x` / `if x is None` give `A or B` /
        `A if A is not None else B`.  Only when exactly these two definitions reach the use, the first dominates both the
        second and the use, and the second sits under exactly one more condition than the first."""
        ds = self.flow.reaching(var, at)
        if 2 < len(ds) <= 6 and all(d.kind == 'assign' and d.value is not None and d.node is not None and id(d) not in seen for d in ds):
            return self._tree_join(var, ds, at, depth, seen, stop)
        if len(ds) != 2 or any(d.node is None or id(d) in seen for d in ds):
            return None
        # x = A; if c: x op= B  ->  (A op B) if c else A: the augmented assignment is a definition whose value is `x op B`
        val = {id(d): (d.value if d.kind == 'assign' else self._aug_value(d) if d.kind == 'aug' else None) for d in ds}
        if any(v is None for v in val.values()):
            return None
        cfg = self.flow.cfg
        if all(d.kind == 'assign' for d in ds):
            dia = self._diamond(var, ds, at, depth, seen, stop)
            if dia is not None:
                return dia
        for d1, d2 in (ds, ds[::-1]):
            if d1.node is d2.node or d1.node is at or d2.node is at or d1.kind != 'assign':
                continue
            if not (cfg.dominates(d1.node, d2.node) and cfg.dominates(d1.node, at)):
                continue
            c1, c2 = cfg.conditions(d1.node), cfg.conditions(d2.node)
            if len(c2) != len(c1) + 1 or any(a[0] is not b[0] or a[1] != b[1] for a, b in zip(c1, c2)):
                continue
            test, pol = c2[-1]
            tn = cfg.node_containing(test)
            if tn is None or not cfg.dominates(d1.node, tn):
                continue
            u = self.flow.unique_def(var, tn)
            if u is not d1:
                continue
            s2 = seen | {id(d1), id(d2)}
            a = self._x(d1.value, d1.node, depth + 1, s2, stop)
            b = self._x(val[id(d2)], d2.node, depth + 1, seen | {id(d2)}, stop)      # may mention the previous value (d1)
            this = ast.Name(id=var, ctx=ast.Load())
            t = test if pol else ast.UnaryOp(op=ast.Not(), operand=test)
            self.expanded_paths.add(var)
            if isinstance(t, ast.UnaryOp) and isinstance(t.op, ast.Not) and ast.dump(t.operand) == ast.dump(this):
                return ast.BoolOp(op=ast.Or(), values=[a, b])
            if isinstance(t, ast.Compare) and len(t.ops) == 1 and isinstance(t.ops[0], ast.Is) and ast.dump(t.left) == ast.dump(this) \
                    and isinstance(t.comparators[0], ast.Constant) and t.comparators[0].value is None:
                return ast.IfExp(test=ast.Compare(left=copy.deepcopy(a), ops=[ast.IsNot()], comparators=[ast.Constant(value=None)]),
                                 body=a, orelse=b)
            tx = self._x(t, tn, depth + 1, s2 , stop | {var})
            tx = _subst(tx, {var: a})
            return ast.IfExp(test=tx, body=b, orelse=a)
        return None

    def _accumulated(self, name, at, depth, seen, stop):
        """final value of an accumulator list (`acc = [..]; for v in X: [if ..] acc.append(E)`) read after all of its
        mutations: `[E for v in X if ..] + [..]` (facts.accumulated_list); None when a mutation may still follow the use"""
        from . import facts
        out = facts.accumulated_list(self.func, name)
        if out is None:
            return None
        cfg = self.flow.cfg
        # a mutation may follow the use only after the accumulator was re-initialised (accumulator local to one iteration
        # of an enclosing loop): reachability from the use is taken without passing the initialising assignment
        inits = [d for d in self.flow.defs_of(name) if d.kind == 'assign' and d.node is not None]
        after = cfg._reachable_from(at, avoid={d.node.id for d in inits}) if len(inits) == 1 else None
        for n in ast.walk(self.func.node):
            mut = None
            if isinstance(n, ast.Call) and isinstance(n.func, ast.Attribute) and isinstance(n.func.value, ast.Name) and \
                    n.func.value.id == name and n.func.attr in self._MUTATORS:
                mut = n
            elif isinstance(n, ast.AugAssign) and isinstance(n.target, ast.Name) and n.target.id == name:
                mut = n
            if mut is not None:
                mn = cfg.node_containing(mut)
                if mn is None or mn is at or (mn.id in after if after is not None else cfg.can_reach(at, mn)):
                    return None
        cs = [c for c in facts.collects(self.func) if c.kind == 'loop' and c.acc == name]
        if cs:
            hdr = cfg.node_of(cs[0].node)
        else:
            ds = [d for d in self.flow.defs_of(name) if d.kind == 'assign']
            hdr = ds[0].node if len(ds) == 1 else None
        if hdr is None or not cfg.dominates(hdr, at):
            return None
        self.expanded_paths.add(name)
        return self._x(out, hdr, depth + 1, seen | {('acc', name)}, stop)

    def _tree_join(self, var, ds, at, depth, seen, stop):
        """if c1: x = A  elif c2: x = B  else: x = C   ->   A if c1 else (B if c2 else C): the definitions reaching the use are
        the leaves of a decision tree of tests (each definition sits directly in one branch), every test dominates the use and
        nothing a test reads is redefined between the test and the use"""
        cfg = self.flow.cfg
        chains = {id(d): cfg.conditions(d.node) for d in ds}
        if any(d.node is at for d in ds):
            return None
        s2 = seen | {id(d) for d in ds}
        tests = []
        tests_outer = [False]

        def rec(group, k):
            if len(group) == 1:
                d = group[0]
                if len(chains[id(d)]) != k:
                    return None          # the definition is under a further condition nobody complements
                return self._x(d.value, d.node, depth + 1, s2, stop)
            if any(len(chains[id(d)]) <= k for d in group):
                return None
            t = chains[id(group[0])][k][0]
            if any(chains[id(d)][k][0] is not t for d in group):
                return None
            T = [d for d in group if chains[id(d)][k][1]]
            F = [d for d in group if not chains[id(d)][k][1]]
            if not T or not F:
                return rec(group, k + 1)
            outer = not tests_outer[0]
            tests_outer[0] = True
            if outer:
                tn0 = cfg.node_containing(t)
                if tn0 is None or not cfg.dominates(tn0, at):
                    return None
            a, b = rec(T, k + 1), rec(F, k + 1)
            if a is None or b is None:
                return None
            tn = cfg.node_containing(t)
            # the outermost test must dominate the use (inner tests are only evaluated on their own side of it)
            if tn is None:
                return None
            for n in ast.walk(t):
                p = attr_path(n) if isinstance(n, (ast.Name, ast.Attribute)) else None
                if p and not self.flow.no_def_between(p, tn, at):
                    return None
            tests.append(t)
            return ast.IfExp(test=self._x(t, tn, depth + 1, s2 , stop | {var}), body=a, orelse=b)
        out = rec(list(ds), 0)
        if out is not None:
            self.expanded_paths.add(var)
        return out

    def _diamond(self, var, ds, at, depth, seen, stop):
        """if c: x = A  else: x = B;  ... x ...   ->   (A if c else B): the two definitions sit in the two branches of one test
        (directly: exactly one more condition than the use has in common with them) and the test dominates the use"""
        cfg = self.flow.cfg
        d1, d2 = ds
        if d1.node is d2.node or d1.node is at or d2.node is at:
            return None
        c1, c2 = cfg.conditions(d1.node), cfg.conditions(d2.node)
        if len(c1) != len(c2) or not c1 or any(a[0] is not b[0] or a[1] != b[1] for a, b in zip(c1[:-1], c2[:-1])):
            return None
        (t1, p1), (t2, p2) = c1[-1], c2[-1]
        if t1 is not t2 or p1 == p2:
            return None
        tn = cfg.node_containing(t1)
        # the test dominates the use and the only definitions reaching the use are the two branch definitions: whichever
        # path reaches the use took the test last (also inside a loop: every iteration re-evaluates it)
        if tn is None or not cfg.dominates(tn, at):
            return None
        s2 = seen | {id(d1), id(d2)}
        dt, df = (d1, d2) if p1 else (d2, d1)
        a = self._x(dt.value, dt.node, depth + 1, s2, stop)
        b = self._x(df.value, df.node, depth + 1, s2, stop)
        # the test is read where it was evaluated; names it mentions must not be redefined up to the use
        for n in ast.walk(t1):
            p = attr_path(n) if isinstance(n, (ast.Name, ast.Attribute)) else None
            if p and not self.flow.no_def_between(p, tn, at):
                return None
        tx = self._x(t1, tn, depth + 1, s2, stop)
        self.expanded_paths.add(var)
        return ast.IfExp(test=tx, body=a, orelse=b)

    _MUTATORS = {'append', 'extend', 'insert', 'remove', 'pop', 'clear', 'sort', 'reverse', 'add', 'discard', 'update', 'setdefault',
                 'popitem', '__setitem__', '__delitem__'}

    def _mutated_names(self):
        """local names whose container value is changed in place somewhere in the function: their defining expression is only
        the INITIAL value, so they are kept as opaque atoms"""
        m = getattr(self, '_mut_cache', None)
        if m is None:
            m = set()
            for n in ast.walk(self.func.node):
                if isinstance(n, ast.Call) and isinstance(n.func, ast.Attribute) and n.func.attr in self._MUTATORS and \
                        isinstance(n.func.value, ast.Name):
                    m.add(n.func.value.id)
                elif isinstance(n, (ast.Assign, ast.AugAssign, ast.Delete)):
                    tg = n.targets if isinstance(n, (ast.Assign, ast.Delete)) else [n.target]
                    for t in tg:
                        if isinstance(t, ast.Subscript) and isinstance(t.value, ast.Name):
                            m.add(t.value.id)
            # a local that is only ever an alias of an attribute path / another name (x = node.children) denotes the same
            # object as that path: expanding it is exact, the mutation happens to the aliased object
            params = set(self.func.params)
            for name in list(m):
                ds = self.flow.defs_of(name)
                if ds and all(d.kind == 'assign' and isinstance(d.value, ast.Attribute) and attr_path(d.value) is not None for d in ds):
                    m.discard(name)
                # ... or of a parameter / self that is never rebound (`lst = self`)
                elif len(ds) == 1 and ds[0].kind == 'assign' and isinstance(ds[0].value, ast.Name) and ds[0].value.id in params and \
                        all(x.kind == 'param' for x in self.flow.defs_of(ds[0].value.id)):
                    m.discard(name)
            self._mut_cache = m
        return m

    def _xfunc(self, fn, at, depth, seen, stop):
        if isinstance(fn, ast.Attribute):
            new = copy.copy(fn)
            new.value = self._x(fn.value, at, depth, seen, stop)
            return new
        return copy.deepcopy(fn)

    def _module_constant(self, name: str) -> Optional[ast.AST]:
        """value of a module level constant (single top-level assignment of a literal / datetime(..) / timedelta(..))"""
        p = self.func
        while p is not None:
            if name in p.params:
                return None
            p = p.parent
        m = self.func.module
        hits = [st for st in m.tree.body if isinstance(st, (ast.Assign, ast.AnnAssign)) and
                any(isinstance(t, ast.Name) and t.id == name for t in (st.targets if isinstance(st, ast.Assign) else [st.target]))]
        if len(hits) != 1 or hits[0].value is None:
            return None
        v = hits[0].value

        def const_like(x):
            if isinstance(x, ast.Constant):
                return True
            if isinstance(x, ast.UnaryOp):
                return const_like(x.operand)
            if isinstance(x, ast.BinOp):
                return const_like(x.left) and const_like(x.right)
            if isinstance(x, ast.Call) and isinstance(x.func, ast.Name) and x.func.id in ('datetime', 'timedelta'):
                return all(const_like(a) for a in x.args) and all(const_like(k.value) for k in x.keywords)
            if isinstance(x, ast.Tuple):
                return all(const_like(e) for e in x.elts)
            if isinstance(x, ast.Name) and x.id in ('int', 'float', 'str', 'bool', 'bytes', 'complex', 'list', 'tuple', 'dict', 'set'):
                return True
            return False
        return copy.deepcopy(v) if const_like(v) else None

    def _callee_value(self, tgt: Func, depth: int) -> Optional[ast.AST]:
        """the value a helper returns as ONE expression over its parameters: straight-line assignments are substituted and
        `if c: return a` / `else` chains become conditional expressions; loops, raises, with/try make it non-inlinable"""
        if isinstance(tgt.node, ast.Lambda):
            return copy.deepcopy(tgt.node.body)
        key = ('cv', id(tgt.node))
        cache = _CALLEE_VALUES
        if key in cache:
            return copy.deepcopy(cache[key]) if cache[key] is not None else None
        cache[key] = None
        sub = Expander(self.prog, tgt, self.typer, inline=True, max_depth=self.max_depth)
        fl = sub.flow

        def harmless(st):
            if isinstance(st, ast.Expr):
                v = st.value
                if isinstance(v, ast.Constant):
                    return True
                # logging / print calls
                if isinstance(v, ast.Call) and isinstance(v.func, ast.Attribute) and isinstance(v.func.value, ast.Name) and \
                        v.func.value.id in ('logging', 'logger', 'log', '_log', '_logger', 'LOG'):
                    return True
                return False
            if isinstance(st, (ast.Assign, ast.AnnAssign)):
                tg = st.targets if isinstance(st, ast.Assign) else [st.target]
                return all(isinstance(t, ast.Name) for t in tg)
            return isinstance(st, ast.Pass)

        def build(stmts, d):
            if d > 6:
                return None
            for i, st in enumerate(stmts):
                if isinstance(st, ast.Return):
                    if st.value is None:
                        return ast.Constant(value=None)
                    return sub.expand(st.value, fl.cfg.node_of(st), depth + 1)
                if isinstance(st, ast.If):
                    then = build(st.body, d + 1)
                    if then is None:
                        return None
                    rest = build(list(st.orelse) + list(stmts[i + 1:]), d + 1)
                    if rest is None:
                        return None
                    test = sub.expand(st.test, fl.cfg.node_containing(st.test), depth + 1)
                    return ast.IfExp(test=test, body=then, orelse=rest)
                if harmless(st):
                    continue
                return None
            return None
        v = build(list(tgt.body), 0)
        cache[key] = v
        return copy.deepcopy(v) if v is not None else None

    def _inline(self, orig: ast.Call, new: ast.Call, depth: int) -> Optional[ast.AST]:
        """inline calls to package helpers whose result is one expression over their parameters (see _callee_value)"""
        if self.typer is None or depth > self.max_depth:
            return None
        tgt = self._single_target(orig)
        if tgt is None:
            return None
        if BASELINE_GATE:
            # shape stability: a function of the reference tree is folded only if it could be folded there (baseline.json
            # 'inlinable'); otherwise rules written against `f(..)` would lose the call when f's body is tidied up
            from .normalize import baseline
            b = baseline()
            if tgt.qual in b['functions'] and 'inlinable' in b and tgt.qual not in b['inlinable']:
                return None
        value = self._callee_value(tgt, depth)
        if value is None:
            return None
        body = [ast.Return(value=value)]
        params = list(tgt.params)
        args = list(new.args)
        if tgt.kind in ('method', 'getter', 'setter'):
            recv = new.func.value if isinstance(new.func, ast.Attribute) else None
            if recv is None:
                return None
            args = [recv] + args
        if any(isinstance(a, ast.Starred) for a in args) or any(k.arg is None for k in new.keywords):
            return None
        if len(args) > len(params):
            return None
        sub = dict(zip(params, args))
        for k in new.keywords:
            if k.arg not in params or k.arg in sub:
                return None
            sub[k.arg] = k.value
        # defaults for missing parameters
        a = tgt.node.args
        defaults = dict(zip([x.arg for x in a.args][-len(a.defaults):], a.defaults)) if a.defaults else {}
        for p in params:
            if p not in sub:
                if p in defaults:
                    sub[p] = defaults[p]
                else:
                    return None
        return _subst(copy.deepcopy(body[0].value), sub)

    def _single_target(self, call: ast.Call) -> Optional[Func]:
        from .types import base, unmangle
        fn = call.func
        if isinstance(fn, ast.Name):
            tg = self.typer.resolve_name_call(fn.id, self.func)
            tg = [t for t in tg if t.kind == 'function']
            if len(tg) == 1:
                return tg[0]
            # a def nested in this function (or in an enclosing one): free variables are looked up at call time, i.e. in
            # the very scope the expansion is substituted into
            p = self.func
            while p is not None and not tg:
                nested = self.prog.funcs.get(p.qual + '.' + fn.id)
                if nested is not None and nested.kind == 'nested' and not self.flow.defs_of(fn.id)[1:]:
                    return nested
                p = p.parent
            return None
        if isinstance(fn, ast.Attribute):
            rt = self.typer.expr_type(fn.value, self.func)
            if rt and rt.startswith('type:'):
                m = self.prog.find_method(rt[5:], unmangle(fn.attr))
                return m if m is not None and m.kind == 'static' else None
            b = base(rt)
            if b in self.prog.classes:
                m = self.prog.find_method(b, unmangle(fn.attr))
                if m is not None and not any(unmangle(fn.attr) in s.methods for s in self.prog.subclasses(b)):
                    if m.kind == 'static':
                        return m
                    return m
        return None


def _subst(tree: ast.AST, sub: Dict[str, ast.AST]) -> ast.AST:
    class T(ast.NodeTransformer):
        def visit_Name(self, n):
            if n.id in sub and isinstance(n.ctx, ast.Load):
                return copy.deepcopy(sub[n.id])
            return n
    return T().visit(tree)


def subst(tree: ast.AST, sub: Dict[str, ast.AST]) -> ast.AST:
    return _subst(copy.deepcopy(tree), sub)


# ---------------------------------------------------------------------------------------------------------------------
# expression-level evaluation conditions

def eval_conditions(root: ast.AST, target: ast.AST) -> Optional[List[Tuple[ast.AST, bool]]]:
    """conditions (test, polarity) under which `target` (a node inside `root`, by identity) is evaluated, coming from
    IfExp tests, short-circuit operands and comprehension filters; None if target is not inside root"""
    def rec(n, conds):
        if n is target:
            return conds
        if isinstance(n, ast.IfExp):
            r = rec(n.test, conds)
            if r is not None:
                return r
            r = rec(n.body, conds + [(n.test, True)])
            if r is not None:
                return r
            return rec(n.orelse, conds + [(n.test, False)])
        if isinstance(n, ast.BoolOp):
            acc = list(conds)
            for v in n.values:
                r = rec(v, acc)
                if r is not None:
                    return r
                acc = acc + [(v, isinstance(n.op, ast.And))]
            return None
        if isinstance(n, (ast.ListComp, ast.SetComp, ast.GeneratorExp, ast.DictComp)):
            acc = list(conds)
            for g in n.generators:
                r = rec(g.iter, acc)
                if r is not None:
                    return r
                for c in g.ifs:
                    r = rec(c, acc)
                    if r is not None:
                        return r
                    acc = acc + [(c, True)]
            for fld in ('elt', 'key', 'value'):
                sub = getattr(n, fld, None)
                if sub is not None:
                    r = rec(sub, acc)
                    if r is not None:
                        return r
            return None
        if isinstance(n, (ast.FunctionDef, ast.Lambda, ast.ClassDef)):
            return None
        for ch in ast.iter_child_nodes(n):
            r = rec(ch, conds)
            if r is not None:
                return r
        return None
    return rec(root, [])
