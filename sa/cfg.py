"""Statement-level control-flow graph with dominators, built by hand over the statement kinds the repository uses.

Nodes: entry, exit (normal return), raise (explicit raise exit), one node per simple statement, one `test` node per
If/While condition, one `for` node per For header (evaluates the iterable / binds the target each iteration),
and one synthetic `branch` node on every conditional edge, so that "condition c with polarity p holds at node n"
is plain node dominance of the branch node over n.
"""
from __future__ import annotations

import ast
from typing import Dict, List, Optional, Set, Tuple


class Node:
    __slots__ = ('id', 'kind', 'ast', 'test', 'polarity', 'succ', 'pred', 'loop')

    def __init__(self, nid: int, kind: str, node: Optional[ast.AST] = None, test=None, polarity=None):
        self.id = nid
        self.kind = kind            # entry exit raise stmt test for branch
        self.ast = node
        self.test = test            # for branch nodes: the test expression (or the For node for iteration branches)
        self.polarity = polarity    # True / False
        self.succ: List['Node'] = []
        self.pred: List['Node'] = []
        self.loop = None

    @property
    def lineno(self):
        return getattr(self.ast, 'lineno', None) or getattr(self.test, 'lineno', None)

    def __repr__(self):
        d = ''
        if self.ast is not None:
            try:
                d = ast.unparse(self.ast).split('\n')[0][:60]
            except Exception:
                d = type(self.ast).__name__
        elif self.test is not None:
            d = ('' if self.polarity else 'not ') + ast.unparse(self.test).split('\n')[0][:50]
        return f"<{self.id}:{self.kind} {d}>"


class CFG:
    def __init__(self, body: List[ast.stmt]):
        self.nodes: List[Node] = []
        self.entry = self._new('entry')
        self.exit = self._new('exit')
        self.raise_exit = self._new('raise')
        self._by_ast: Dict[int, Node] = {}
        self._loops: List[Tuple[Node, List[Node]]] = []   # (continue target, break collectors)
        outs = self._seq(body, [self.entry])
        for o in outs:
            self._edge(o, self.exit)
        self._dom: Optional[Dict[int, Set[int]]] = None
        self._reach: Dict[int, Set[int]] = {}

    # ------------------------------------------------------------ construction
    def _new(self, kind, node=None, test=None, polarity=None) -> Node:
        n = Node(len(self.nodes), kind, node, test, polarity)
        self.nodes.append(n)
        return n

    def _edge(self, a: Node, b: Node):
        if b not in a.succ:
            a.succ.append(b)
            b.pred.append(a)

    def _stmt_node(self, st, preds: List[Node], kind='stmt') -> Node:
        n = self._new(kind, st)
        self._by_ast[id(st)] = n
        for p in preds:
            self._edge(p, n)
        return n

    def _branch(self, frm: Node, test, polarity) -> Node:
        b = self._new('branch', None, test, polarity)
        self._edge(frm, b)
        return b

    def _seq(self, stmts: List[ast.stmt], preds: List[Node]) -> List[Node]:
        cur = preds
        for st in stmts:
            cur = self._stmt(st, cur)
        return cur

    def _stmt(self, st: ast.stmt, preds: List[Node]) -> List[Node]:
        if isinstance(st, ast.If):
            t = self._stmt_node(st.test, preds, 'test')
            self._by_ast[id(st)] = t
            bt = self._branch(t, st.test, True)
            bf = self._branch(t, st.test, False)
            o1 = self._seq(st.body, [bt])
            o2 = self._seq(st.orelse, [bf])
            return o1 + o2
        if isinstance(st, ast.While):
            t = self._stmt_node(st.test, preds, 'test')
            self._by_ast[id(st)] = t
            const_true = isinstance(st.test, ast.Constant) and bool(st.test.value)
            bt = self._branch(t, st.test, True)
            breaks: List[Node] = []
            self._loops.append((t, breaks))
            body_out = self._seq(st.body, [bt])
            self._loops.pop()
            for o in body_out:
                self._edge(o, t)
            outs = list(breaks)
            if not const_true:
                bf = self._branch(t, st.test, False)
                outs += self._seq(st.orelse, [bf])
            return outs
        if isinstance(st, (ast.For, ast.AsyncFor)):
            h = self._stmt_node(st, preds, 'for')
            bt = self._branch(h, st, True)     # an element was bound
            bf = self._branch(h, st, False)    # iterable exhausted
            breaks = []
            self._loops.append((h, breaks))
            body_out = self._seq(st.body, [bt])
            self._loops.pop()
            for o in body_out:
                self._edge(o, h)
            return self._seq(st.orelse, [bf]) + breaks
        if isinstance(st, ast.Try):
            start = self._new('stmt', None)
            for p in preds:
                self._edge(p, start)
            first_new = len(self.nodes)
            body_out = self._seq(st.body, [start])
            body_nodes = [start] + self.nodes[first_new:]
            outs = self._seq(st.orelse, body_out) if st.orelse else list(body_out)
            for h in st.handlers:
                hn = self._new('stmt', h)
                self._by_ast[id(h)] = hn
                for bn in body_nodes:
                    if bn.kind in ('stmt', 'test', 'for'):
                        self._edge(bn, hn)
                outs += self._seq(h.body, [hn])
            if st.finalbody:
                outs = self._seq(st.finalbody, outs)
            return outs
        if isinstance(st, (ast.With, ast.AsyncWith)):
            n = self._stmt_node(st, preds, 'stmt')
            return self._seq(st.body, [n])
        if isinstance(st, ast.Return):
            n = self._stmt_node(st, preds)
            self._edge(n, self.exit)
            return []
        if isinstance(st, ast.Raise):
            n = self._stmt_node(st, preds)
            self._edge(n, self.raise_exit)
            return []
        if isinstance(st, ast.Break):
            n = self._stmt_node(st, preds)
            if self._loops:
                self._loops[-1][1].append(n)
            return []
        if isinstance(st, ast.Continue):
            n = self._stmt_node(st, preds)
            if self._loops:
                self._edge(n, self._loops[-1][0])
            return []
        n = self._stmt_node(st, preds)
        return [n]

    # ------------------------------------------------------------ queries
    def node_of(self, st: ast.AST) -> Optional[Node]:
        return self._by_ast.get(id(st))

    def node_containing(self, expr: ast.AST) -> Optional[Node]:
        """CFG node whose statement / test / for-header contains the expression node (identity)."""
        cache = getattr(self, '_contain', None)
        if cache is None:
            cache = {}
            for n in self.nodes:
                if n.ast is None:
                    continue
                roots = []
                if n.kind == 'for':
                    roots = [n.ast.iter, n.ast.target]
                elif isinstance(n.ast, (ast.With, ast.AsyncWith)):
                    roots = [i for it in n.ast.items for i in (it.context_expr, it.optional_vars) if i is not None]
                elif isinstance(n.ast, ast.ExceptHandler):
                    roots = [n.ast.type] if n.ast.type is not None else []
                else:
                    roots = [n.ast]
                for r in roots:
                    for sub in _walk_expr(r):
                        cache.setdefault(id(sub), n)
            self._contain = cache
        return cache.get(id(expr))

    def dominators(self) -> Dict[int, Set[int]]:
        if self._dom is not None:
            return self._dom
        reachable = self._reachable_from(self.entry)
        ids = [n.id for n in self.nodes if n.id in reachable]
        allset = set(ids)
        dom = {i: set(allset) for i in ids}
        dom[self.entry.id] = {self.entry.id}
        changed = True
        order = ids
        while changed:
            changed = False
            for i in order:
                if i == self.entry.id:
                    continue
                n = self.nodes[i]
                ps = [p.id for p in n.pred if p.id in reachable]
                new = set.intersection(*(dom[p] for p in ps)) if ps else set()
                new = new | {i}
                if new != dom[i]:
                    dom[i] = new
                    changed = True
        self._dom = dom
        return dom

    def dominates(self, a: Node, b: Node) -> bool:
        d = self.dominators()
        return b.id in d and a.id in d[b.id]

    def _reachable_from(self, a: Node, avoid: Optional[Set[int]] = None) -> Set[int]:
        seen = set()
        todo = [a]
        while todo:
            n = todo.pop()
            for s in n.succ:
                if s.id in seen or (avoid and s.id in avoid):
                    continue
                seen.add(s.id)
                todo.append(s)
        return seen | ({a.id} if avoid is None else set())

    def reachable_after(self, a: Node) -> Set[int]:
        """ids of nodes reachable from a by at least one edge (a itself only if on a cycle)"""
        if a.id not in self._reach:
            seen = set()
            todo = [a]
            while todo:
                n = todo.pop()
                for s in n.succ:
                    if s.id not in seen:
                        seen.add(s.id)
                        todo.append(s)
            self._reach[a.id] = seen
        return self._reach[a.id]

    def can_reach(self, a: Node, b: Node) -> bool:
        return b.id in self.reachable_after(a)

    def is_reachable(self, n: Node) -> bool:
        return n.id in self.dominators()

    def conditions(self, n: Node) -> List[Tuple[ast.AST, bool]]:
        """(test, polarity) of every branch node that dominates n (ordered from the entry)"""
        d = self.dominators().get(n.id, set())
        res = []
        for i in sorted(d):
            b = self.nodes[i]
            if b.kind == 'branch' and not isinstance(b.test, (ast.For, ast.AsyncFor)):
                res.append((b.test, b.polarity))
        return res

    def enclosing_fors(self, n: Node) -> List[ast.For]:
        """For statements whose body contains n (n dominated by the loop's element branch and can reach the header)"""
        d = self.dominators().get(n.id, set())
        res = []
        for i in sorted(d):
            b = self.nodes[i]
            if b.kind == 'branch' and isinstance(b.test, (ast.For, ast.AsyncFor)) and b.polarity:
                # dominated by the "element bound" branch = inside the loop body (statements after the loop are also
                # reachable through the "exhausted" branch, hence not dominated); raise/return/break statements of the
                # body cannot reach the header again but still belong to the loop
                res.append(b.test)
        return res

    def enclosing_loops(self, n: Node) -> List[Node]:
        """loop header nodes (for / while test) of loops whose body contains n"""
        d = self.dominators().get(n.id, set())
        res = []
        for i in sorted(d):
            b = self.nodes[i]
            if b.kind == 'branch' and b.polarity:
                hdr = b.pred[0] if b.pred else None
                if hdr is not None and hdr.kind in ('for', 'test') and self.can_reach(n, hdr) and \
                        self.dominates(hdr, n) and any(self.can_reach(s, hdr) for s in [n]):
                    # while-test or for-header that n can loop back to
                    if hdr.kind == 'for' or self._is_loop_test(hdr):
                        res.append(hdr)
        return res

    def _is_loop_test(self, t: Node) -> bool:
        return self.can_reach(t, t)

    def stmt_nodes(self) -> List[Node]:
        return [n for n in self.nodes if n.kind in ('stmt', 'test', 'for') and n.ast is not None and self.is_reachable(n)]

    def between(self, a: Node, b: Node, avoid: Optional[Set[int]] = None) -> Set[int]:
        """ids of nodes lying on some path from a to b that does not pass through a again nor through `avoid` (a, b excluded)"""
        av = {a.id} | set(avoid or ())
        fwd = self._reachable_from(a, avoid=av)
        # nodes that can reach b without passing a
        back = set()
        todo = [b]
        while todo:
            n = todo.pop()
            for p in n.pred:
                if p.id in av or p.id in back:
                    continue
                back.add(p.id)
                todo.append(p)
        return (fwd & back) - {a.id, b.id}

    def loop_entry_branch(self, loop_stmt) -> Optional[Node]:
        """the branch node through which the body of a while / for statement is entered"""
        hdr = self.node_of(loop_stmt)
        if hdr is None:
            return None
        for s in hdr.succ:
            if s.kind == 'branch' and s.polarity:
                return s
        return None


def _walk_expr(node):
    todo = [node]
    while todo:
        n = todo.pop()
        if isinstance(n, (ast.FunctionDef, ast.AsyncFunctionDef, ast.ClassDef)) and n is not node:
            continue
        if isinstance(n, (ast.If, ast.While)):
            # compound statements are not single nodes: only their own node (test) is handled by the caller
            continue
        yield n
        if isinstance(n, (ast.For, ast.AsyncFor, ast.With, ast.AsyncWith, ast.Try)):
            continue
        todo.extend(ast.iter_child_nodes(n))


_CFG_CACHE: Dict[int, CFG] = {}


def cfg_of(func) -> CFG:
    key = id(func.node)
    c = _CFG_CACHE.get(key)
    if c is None:
        c = CFG(func.body)
        _CFG_CACHE[key] = c
        c._func_node = func.node   # keep alive
    return c
