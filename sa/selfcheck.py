"""setup self check: engine imports, repository parses, anchors of every rule module resolve"""
import sys
def main():
    from sa.model import Program
    p = Program()
    print(f"selfcheck: parsed {len(p.modules)} modules, {len(p.funcs)} functions, {len(p.classes)} classes under {p.pkg}")
    return 0
