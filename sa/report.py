"""Obligations, three-valued verdicts, known findings, evidence files and exit codes."""
from __future__ import annotations

import ast
import json
import os
import time
from typing import Dict, List, Optional

from .model import AnalysisError, Func, src

VERIF = os.path.dirname(os.path.dirname(os.path.abspath(__file__)))

PROVED, REFUTED, UNKNOWN, ERROR = 'PROVED', 'REFUTED', 'UNKNOWN', 'ANALYSIS-ERROR'


def norm_text(node_or_text) -> str:
    """position independent text of a construct (used in finding keys)"""
    if isinstance(node_or_text, ast.AST):
        t = src(node_or_text)
    else:
        t = str(node_or_text)
    t = ' '.join(t.split())
    return t[:160]


class Finding:
    def __init__(self, prop: str, ob: str, func: Optional[str], construct: str, where: str, msg: str):
        self.prop, self.ob, self.func, self.construct, self.where, self.msg = prop, ob, func, construct, where, msg

    @property
    def key(self) -> str:
        return f"{self.ob}|{self.func or '-'}|{self.construct}"

    def to_json(self):
        return {'key': self.key, 'obligation': self.ob, 'function': self.func, 'construct': self.construct,
                'where': self.where, 'message': self.msg}


class Obligation:
    def __init__(self, prop: str, oid: str, rule: str, desc: str, floor: int = 1):
        self.prop = prop
        self.id = oid
        self.rule = rule
        self.desc = desc
        self.floor = floor
        self.sites: List[str] = []
        self.proved_notes: List[str] = []
        self.refuted: List[Finding] = []
        self.unknown: List[Finding] = []
        self.error: Optional[str] = None

    # ---- recording
    def site(self, func: Optional[Func], node=None, note: str = ''):
        """one matched site that satisfies the obligation"""
        where = func.loc(node) if func is not None else ''
        self.sites.append(f"{where} {func.qual if func else ''} {note}".strip())

    def refute(self, func: Optional[Func], node, construct, msg: str):
        where = func.loc(node) if func is not None else ''
        self.sites.append(f"{where} {func.qual if func else ''} REFUTED".strip())
        self.refuted.append(Finding(self.prop, self.id, func.qual if func else None, norm_text(construct), where, msg))

    def undecided(self, func: Optional[Func], node, construct, msg: str):
        where = func.loc(node) if func is not None else ''
        self.sites.append(f"{where} {func.qual if func else ''} UNKNOWN".strip())
        self.unknown.append(Finding(self.prop, self.id, func.qual if func else None, norm_text(construct), where, msg))

    def fail(self, msg: str):
        self.error = msg

    @property
    def verdict(self) -> str:
        if self.error:
            return ERROR
        if self.refuted:
            return REFUTED
        if self.unknown:
            return UNKNOWN
        if len(self.sites) < self.floor:
            return ERROR
        return PROVED

    def to_json(self):
        d = {'id': self.id, 'rule': self.rule, 'statement': self.desc, 'verdict': self.verdict,
             'sites_matched': len(self.sites), 'floor': self.floor, 'sites': self.sites[:40]}
        if self.refuted:
            d['refuted'] = [f.to_json() for f in self.refuted]
        if self.unknown:
            d['unknown'] = [f.to_json() for f in self.unknown]
        if self.error or (self.verdict == ERROR):
            d['error'] = self.error or f"only {len(self.sites)} site(s) matched, floor is {self.floor} (vacuity guard)"
        return d


class Ctx:
    """per run context handed to rule modules"""

    def __init__(self, prog, prop: str, tier: str, typer, callgraph):
        self.prog = prog
        self.prop = prop
        self.tier = tier
        self.typer = typer
        self.cg = callgraph
        self.obligations: List[Obligation] = []
        self.assumptions: List[str] = []
        self.notes: Dict[str, object] = {}

    def ob(self, oid: str, rule: str, desc: str, floor: int = 1) -> Obligation:
        o = Obligation(self.prop, f"{self.prop}.{oid}", rule, desc, floor)
        self.obligations.append(o)
        return o

    def assume(self, text: str):
        if text not in self.assumptions:
            self.assumptions.append(text)

    def guarded(self, o: Obligation, fn):
        """run a rule body; an analysis error inside it marks the obligation as ANALYSIS-ERROR instead of crashing"""
        try:
            fn(o)
        except AnalysisError as e:
            o.fail(str(e))


# ---------------------------------------------------------------------------------------------------------------------
def load_known() -> dict:
    p = os.path.join(VERIF, 'known_findings.json')
    if not os.path.exists(p):
        return {'known': [], 'fixed': []}
    with open(p) as f:
        return json.load(f)


def finish(ctx: Ctx, t0: float, seed: int, extra_cov: Optional[dict] = None, out=print) -> int:
    """prints the verdict lines, writes the evidence and the replay report, returns the exit code"""
    prop, tier = ctx.prop, ctx.tier
    known = [k for k in load_known().get('known', []) if k.get('property') == prop]
    known_keys = {k['key']: k for k in known}
    obs = ctx.obligations
    new_findings, matched_known = [], []
    for o in obs:
        for f in o.refuted:
            if f.key in known_keys:
                matched_known.append((f, known_keys[f.key]))
            else:
                new_findings.append(f)
    unknowns = [f for o in obs for f in o.unknown]
    errors = [o for o in obs if o.verdict == ERROR]

    def eff_verdict(o):
        if o.verdict == REFUTED and all(f.key in known_keys for f in o.refuted):
            return 'REFUTED-KNOWN'
        return o.verdict

    n_proved = sum(1 for o in obs if o.verdict == PROVED)
    report_path = os.path.join(VERIF, 'reports', f"{prop}.{tier}.json")
    os.makedirs(os.path.dirname(report_path), exist_ok=True)
    report = {'property': prop, 'tier': tier, 'repo': ctx.prog.repo, 'source_digest': ctx.prog.digest,
              'violations': [f.to_json() for f in new_findings],
              'known_findings': [f.to_json() for f, _ in matched_known],
              'undecided': [f.to_json() for f in unknowns],
              'analysis_errors': [o.to_json() for o in errors],
              'obligations': [dict(o.to_json(), effective=eff_verdict(o)) for o in obs]}
    with open(report_path, 'w') as fh:
        json.dump(report, fh, indent=1)

    for o in obs:
        out(f"  [{eff_verdict(o):14s}] {o.id:34s} {o.rule:4s} sites={len(o.sites):3d}  {o.desc[:110]}")
    for f, k in matched_known:
        out(f"KNOWN-FINDING: property={prop} {f.key} at {f.where}: {k.get('what', f.msg)}")
    for f in new_findings:
        out(f"FINDING property={prop} obligation={f.ob} at {f.where} in {f.func}: {f.msg} [{f.construct}]")
    for f in unknowns:
        out(f"UNDECIDED property={prop} obligation={f.ob} at {f.where} in {f.func}: {f.msg} [{f.construct}]")
    for o in errors:
        out(f"ANALYSIS-ERROR property={prop} obligation={o.id}: {o.to_json().get('error')}")

    if new_findings:
        code = 1
        out(f"VIOLATION property={prop} replay={report_path}")
    elif unknowns or errors:
        code = 2
    else:
        code = 0

    wall = time.time() - t0
    n_sites = sum(len(o.sites) for o in obs)
    cov = {
        'explanation': (
            f"Static analysis of {ctx.prog.repo}/src/pjplan (python ast, never imported or executed): "
            f"{len(obs)} obligations of property {prop} evaluated over the current working tree; an obligation is a "
            f"universally quantified structural rule (rule family in 'rule', see DESIGN.md section 4) whose spec side "
            f"comes from the property text. PROVED = every matched site satisfies it; REFUTED = a recognised construct "
            f"contradicts it (-> VIOLATION unless listed in known_findings.json); UNKNOWN/ANALYSIS-ERROR -> exit 2."),
        'obligations': len(obs),
        'discharged': n_proved,
        'refuted_known': sum(1 for o in obs if eff_verdict(o) == 'REFUTED-KNOWN'),
        'refuted_new': sum(1 for o in obs if eff_verdict(o) == REFUTED),
        'undecided': sum(1 for o in obs if o.verdict == UNKNOWN),
        'analysis_errors': len(errors),
        'evaluations': max(n_sites, 1),
        'distinct_nontrivial': sum(1 for o in obs if len(o.sites) > 0),
        'rule': 'evaluations = program sites (statements, call sites, table entries) matched and decided by the '
                'obligations; distinct_nontrivial = obligations with at least one matched site (an obligation without '
                'a matched site is an analysis error, never a pass)',
        'checker_cmd': f"cd /verif && /venv/bin/python check.py {prop} --tier {tier}",
        'trusted_base': ['python ast parser of /venv/bin/python', 'the rule implementations under /verif/sa and /verif/rules',
                         'the hand argument in DESIGN.md section 5 tying the structural clauses to the property'],
        'functions_analysed': len(ctx.prog.funcs),
        'modules_analysed': sorted(m.rel for m in ctx.prog.modules.values()),
        'source_digest': ctx.prog.digest,
        'call_sites_resolved': ctx.cg.n_attr_resolved,
        'call_sites_total': ctx.cg.n_attr_calls,
        'unresolved_calls': [f"{a}: {b}" for a, b in ctx.cg.unresolved][:25],
        'obligation_records': [dict(o.to_json(), effective=eff_verdict(o)) for o in obs],
        'samples': [dict(o.to_json(), effective=eff_verdict(o)) for o in obs[:3]],
        'known_findings_matched': [f.key for f, _ in matched_known],
        'exhaustive': True,
    }
    cov.update(ctx.notes)
    if extra_cov:
        cov.update(extra_cov)
    ev = {'property_id': prop, 'tier': tier, 'seed': seed, 'level': 'other', 'coverage': cov,
          'assumptions': ctx.assumptions, 'wall_s': round(wall, 3), 'violations': len(new_findings)}
    ev_path = os.path.join(VERIF, 'evidence', f"{prop}.json")
    os.makedirs(os.path.dirname(ev_path), exist_ok=True)
    with open(ev_path, 'w') as fh:
        json.dump(ev, fh, indent=1)
    out(f"{prop} {tier}: {n_proved}/{len(obs)} obligations proved, {len(matched_known)} known finding(s), "
        f"{len(new_findings)} violation(s), {len(unknowns)} undecided, {len(errors)} analysis error(s); "
        f"{n_sites} sites; {wall:.2f}s; exit {code}")
    return code
