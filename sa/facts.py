"""Shared fact extraction used by the rule modules: guards (raise + path condition + binders), stores, calls,
normalisation of common idioms (midnight of a date, day steps, exists-forms)."""
from __future__ import annotations

import ast
import copy
from typing import Dict, List, Optional, Tuple

from .cfg import cfg_of, Node
from .flow import flow_of, Expander, eval_conditions
from .model import Func, Program, unmangle, walk_no_nested, src
from .pat import match, same, attr_path, names_in
from .effects import exc_name


class Guard:
    """a `raise` with the conditions under which it executes"""

    def __init__(self, func: Func, node: ast.Raise, exc: str, conds, binders, cfg_node: Node):
        self.func = func
        self.node = node
        self.exc = exc
        self.conds: List[Tuple[ast.AST, bool]] = conds        # expanded tests with polarity (conjunction)
        self.binders: List[Tuple[ast.AST, ast.AST]] = binders  # (target, expanded iterable) of enclosing for loops
        self.cfg_node = cfg_node

    def __repr__(self):
        c = ' and '.join(('' if p else 'not ') + '(' + src(t) + ')' for t, p in self.conds)
        b = ' '.join(f"for {src(t)} in {src(i)}:" for t, i in self.binders)
        return f"<Guard {self.exc} {b} if {c} @{self.node.lineno}>"


def guards_of(prog: Program, func: Func, typer=None, inline=True) -> List[Guard]:
    cfg = cfg_of(func)
    ex = Expander(prog, func, typer, inline=inline)
    out = []
    for n in walk_no_nested(func.node):
        if isinstance(n, ast.Raise):
            cn = cfg.node_of(n)
            if cn is None or not cfg.is_reachable(cn):
                continue
            conds = []
            for t, pol in cfg.conditions(cn):
                tn = cfg.node_containing(t)
                conds.append((ex.expand(t, tn), pol))
            binders = []
            for fo in cfg.enclosing_fors(cn):
                hn = cfg.node_of(fo)
                binders.append((fo.target, ex.expand(fo.iter, hn)))
            out.append(Guard(func, n, exc_name(n), conds, binders, cn))
    return out


def split_conj(cond: ast.AST, pol: bool) -> List[Tuple[ast.AST, bool]]:
    """flatten `a and b` (positive) / `not (a or b)` into atoms with polarity; anything else is one atom"""
    if isinstance(cond, ast.UnaryOp) and isinstance(cond.op, ast.Not):
        return split_conj(cond.operand, not pol)
    if isinstance(cond, ast.BoolOp):
        if isinstance(cond.op, ast.And) and pol:
            out = []
            for v in cond.values:
                out += split_conj(v, True)
            return out
        if isinstance(cond.op, ast.Or) and not pol:
            out = []
            for v in cond.values:
                out += split_conj(v, False)
            return out
    return [(cond, pol)]


def exists_form(e: ast.AST) -> Optional[Tuple[ast.AST, ast.AST, List[ast.AST]]]:
    """recognise  len([x for x in X if C]) > 0 | any(C for x in X) | [..] (truthy)  ->  (target, iterable, [conds])"""
    m = match("len($c) > 0", e) or match("len($c) != 0", e) or match("len($c) >= 1", e) or match("bool($c)", e)
    comp = None
    if m and isinstance(m['c'], (ast.ListComp, ast.SetComp, ast.GeneratorExp)):
        comp = m['c']
    elif isinstance(e, (ast.ListComp,)):
        comp = e
    else:
        m = match("any($c)", e)
        if m and isinstance(m['c'], (ast.GeneratorExp, ast.ListComp)):
            comp = m['c']
            if len(comp.generators) == 1:
                g = comp.generators[0]
                return g.target, g.iter, list(g.ifs) + [comp.elt]
    if comp is not None and len(comp.generators) == 1:
        g = comp.generators[0]
        return g.target, g.iter, list(g.ifs)
    return None


def attr_stores(func: Func, attr: Optional[str] = None) -> List[Tuple[ast.AST, ast.Attribute, Optional[ast.AST]]]:
    """(statement, target attribute node, value) for every attribute store in func (chained assignment unfolded)"""
    out = []
    for n in walk_no_nested(func.node):
        if isinstance(n, ast.Assign):
            for t in n.targets:
                for x in _flat(t):
                    if isinstance(x, ast.Attribute) and (attr is None or x.attr == attr):
                        out.append((n, x, n.value))
        elif isinstance(n, (ast.AugAssign, ast.AnnAssign)):
            x = n.target
            if isinstance(x, ast.Attribute) and (attr is None or x.attr == attr):
                out.append((n, x, n.value))
    return out


def _flat(t):
    if isinstance(t, (ast.Tuple, ast.List)):
        out = []
        for e in t.elts:
            out.extend(_flat(e))
        return out
    return [t]


def calls_named(func: Func, name: str) -> List[ast.Call]:
    out = []
    for n in walk_no_nested(func.node):
        if isinstance(n, ast.Call):
            fn = n.func
            if isinstance(fn, ast.Attribute) and unmangle(fn.attr) == name:
                out.append(n)
            elif isinstance(fn, ast.Name) and fn.id == name:
                out.append(n)
    return out


def is_midnight_of(e: ast.AST) -> Optional[ast.AST]:
    """datetime(d.year, d.month, d.day[, 0, 0, 0, 0]) or d.replace(hour=0, minute=0, second=0, microsecond=0)
    or datetime.combine(d.date(), time.min)  ->  d"""
    m = match("datetime($d.year, $d.month, $d.day, $*z)", e)
    if m and all(isinstance(z, ast.Constant) and z.value == 0 for z in m['z']):
        return m['d']
    # keyword spelling: datetime(year=d.year, month=d.month, day=d.day[, hour=0, ...]) (also mixed with positional arguments)
    if isinstance(e, ast.Call) and isinstance(e.func, ast.Name) and e.func.id == 'datetime' and e.keywords and \
            all(k.arg for k in e.keywords) and not any(isinstance(a, ast.Starred) for a in e.args):
        names = ['year', 'month', 'day', 'hour', 'minute', 'second', 'microsecond']
        vals = dict(zip(names, e.args))
        dup = any(k.arg in vals for k in e.keywords)
        vals.update({k.arg: k.value for k in e.keywords})
        if not dup and set(vals) <= set(names) and {'year', 'month', 'day'} <= set(vals):
            base = [v.value for f, v in vals.items() if f in ('year', 'month', 'day') and isinstance(v, ast.Attribute) and v.attr == f]
            if len(base) == 3 and same(base[0], base[1]) and same(base[0], base[2]) and \
                    all(isinstance(v, ast.Constant) and v.value == 0 for f, v in vals.items() if f not in ('year', 'month', 'day')):
                return base[0]
    if isinstance(e, ast.Call) and isinstance(e.func, ast.Attribute) and e.func.attr == 'replace' and not e.args:
        kw = {k.arg: k.value for k in e.keywords}
        if set(kw) == {'hour', 'minute', 'second', 'microsecond'} and \
                all(isinstance(v, ast.Constant) and v.value == 0 for v in kw.values()):
            return e.func.value
    m = match("datetime.combine($d.date(), $t)", e)
    if m and src(m['t']) in ('time.min', 'time()', 'datetime.min.time()'):
        return m['d']
    return None


def day_delta(e: ast.AST) -> Optional[float]:
    """timedelta(days=k) -> k ; timedelta(hours=24*k) -> k ; timedelta(k) -> k  (k numeric constant, possibly negated)"""
    if not (isinstance(e, ast.Call) and isinstance(e.func, ast.Name) and e.func.id == 'timedelta'):
        if isinstance(e, ast.UnaryOp) and isinstance(e.op, ast.USub):
            v = day_delta(e.operand)
            return -v if v is not None else None
        return None
    val = None
    if len(e.args) == 1 and not e.keywords:
        val = const_num(e.args[0])
    elif not e.args and len(e.keywords) == 1:
        k = e.keywords[0]
        v = const_num(k.value)
        if v is not None:
            if k.arg == 'days':
                val = v
            elif k.arg == 'hours':
                val = v / 24.0
    return val


def const_num(e: ast.AST) -> Optional[float]:
    if isinstance(e, ast.Constant) and isinstance(e.value, (int, float)) and not isinstance(e.value, bool):
        return e.value
    if isinstance(e, ast.UnaryOp) and isinstance(e.op, ast.USub):
        v = const_num(e.operand)
        return -v if v is not None else None
    if isinstance(e, ast.BinOp) and isinstance(e.op, (ast.Mult, ast.Add, ast.Sub)):
        a, b = const_num(e.left), const_num(e.right)
        if a is not None and b is not None:
            return a * b if isinstance(e.op, ast.Mult) else (a + b if isinstance(e.op, ast.Add) else a - b)
    return None


def flatten_lattice(e: ast.AST, op: str) -> Optional[List[ast.AST]]:
    """arguments of a (nested) max/min call, looking through the `max(list + [x])` and `max([..])` idioms.
    Returns expression nodes; list comprehensions stay as one argument (their element is what is maximised)."""
    if not (isinstance(e, ast.Call) and isinstance(e.func, ast.Name) and e.func.id == op):
        return None
    if e.keywords:
        return None
    args: List[ast.AST] = []

    def add_seq(x):
        if isinstance(x, ast.BinOp) and isinstance(x.op, ast.Add):
            add_seq(x.left)
            add_seq(x.right)
        elif isinstance(x, (ast.List, ast.Tuple)):
            for el in x.elts:
                add_arg(el)
        else:
            args.append(x)      # comprehension / other sequence expression

    def add_arg(x):
        inner = flatten_lattice(x, op)
        if inner is not None:
            args.extend(inner)
        else:
            args.append(x)

    if len(e.args) == 1:
        add_seq(e.args[0])
    else:
        for a in e.args:
            add_arg(a)
    return args


def comp_parts(e: ast.AST):
    """single-generator comprehension -> (elt, target, iter, ifs) else None"""
    if isinstance(e, (ast.ListComp, ast.GeneratorExp, ast.SetComp)) and len(e.generators) == 1:
        g = e.generators[0]
        # [v for v in [E for t in X if C] if D(v)]  ==  [E for t in X if C if D(E)]   (a pure filter over an inner comprehension)
        inner = g.iter
        if isinstance(inner, (ast.ListComp, ast.GeneratorExp)) and len(inner.generators) == 1 and isinstance(g.target, ast.Name) \
                and isinstance(e.elt, ast.Name) and e.elt.id == g.target.id and not isinstance(e, ast.SetComp):
            from .flow import subst as _sub
            ig = inner.generators[0]
            ifs = list(ig.ifs) + [_sub(c, {g.target.id: inner.elt}) for c in g.ifs]
            return inner.elt, ig.target, ig.iter, ifs
        return e.elt, g.target, g.iter, g.ifs
    return None


def cond_texts(conds) -> List[str]:
    return [('' if p else 'not ') + src(t) for t, p in conds]


def node_conditions(prog: Program, func: Func, node: ast.AST, typer=None, expand=True) -> List[Tuple[ast.AST, bool]]:
    """path condition of the statement containing node, tests expanded, conjunctions split"""
    cfg = cfg_of(func)
    cn = cfg.node_containing(node) or cfg.node_of(node)
    if cn is None:
        return []
    ex = Expander(prog, func, typer)
    out = []
    for t, pol in cfg.conditions(cn):
        tt = ex.expand(t, cfg.node_containing(t)) if expand else t
        out += split_conj(tt, pol)
    return out


def bound_args(call: ast.Call, callee: Func, drop_self: bool = True) -> List[Optional[ast.AST]]:
    """argument expressions of a call aligned with the callee's parameters (keywords bound by name, missing -> None)"""
    params = list(callee.params)
    if drop_self and callee.kind in ('method', 'getter', 'setter') and params:
        params = params[1:]
    out: List[Optional[ast.AST]] = [None] * len(params)
    pos = [a for a in call.args if not isinstance(a, ast.Starred)]
    for i, a in enumerate(pos[:len(params)]):
        out[i] = a
    for k in call.keywords:
        if k.arg in params:
            out[params.index(k.arg)] = k.value
    return out


class Collect:
    """one 'collect E for v in X if C...' site: a comprehension, or the equivalent accumulation loop
    (`for v in X: if ..: continue ... acc.append(E)` / `acc += E` / `acc += [E]`)"""

    def __init__(self, node, elt, target, iter_, conds, acc=None, kind='comp'):
        self.node, self.elt, self.target, self.iter, self.conds, self.acc, self.kind = node, elt, target, iter_, conds, acc, kind
        # conds: [(test, polarity)]

    def atoms(self):
        out = []
        for t, p in self.conds:
            out += split_conj(t, p)
        return out


def collects(func: Func) -> List[Collect]:
    out: List[Collect] = []
    cfg = cfg_of(func)
    for n in walk_no_nested(func.node):
        if isinstance(n, (ast.ListComp, ast.GeneratorExp, ast.SetComp)) and len(n.generators) == 1:
            g = n.generators[0]
            out.append(Collect(n, n.elt, g.target, g.iter, [(c, True) for c in g.ifs]))
        elif isinstance(n, ast.For):
            hdr = cfg.node_of(n)
            for st in walk_no_nested(n):
                elt = acc = None
                if isinstance(st, ast.Expr) and isinstance(st.value, ast.Call) and isinstance(st.value.func, ast.Attribute) and \
                        st.value.func.attr in ('append', 'add') and isinstance(st.value.func.value, ast.Name) and len(st.value.args) == 1:
                    elt, acc = st.value.args[0], st.value.func.value.id
                elif isinstance(st, ast.AugAssign) and isinstance(st.op, ast.Add) and isinstance(st.target, ast.Name):
                    acc = st.target.id
                    elt = st.value.elts[0] if isinstance(st.value, ast.List) and len(st.value.elts) == 1 else st.value
                if elt is None:
                    continue
                # innermost enclosing for must be n
                inner = [x for x in walk_no_nested(n) if isinstance(x, ast.For) and x is not n and any(y is st for y in ast.walk(x))]
                if inner:
                    continue
                sn = cfg.node_of(st)
                if sn is None or hdr is None:
                    continue
                conds = [(t, p) for t, p in cfg.conditions(sn)
                         if cfg.node_containing(t) is not None and cfg.dominates(hdr, cfg.node_containing(t)) and cfg.node_containing(t) is not hdr]
                out.append(Collect(n, elt, n.target, n.iter, conds, acc, 'loop'))
    return out


_POS = {ast.NotIn: ast.In, ast.IsNot: ast.Is, ast.NotEq: ast.Eq}


def norm_cond(test: ast.AST, pol: bool) -> Tuple[ast.AST, bool]:
    """(positive core test, polarity): `not x`, `a not in b`, `a is not b`, `a != b` are rewritten to their positive form"""
    while isinstance(test, ast.UnaryOp) and isinstance(test.op, ast.Not):
        test, pol = test.operand, not pol
    if isinstance(test, ast.Compare) and len(test.ops) == 1 and type(test.ops[0]) in _POS:
        t2 = ast.Compare(left=test.left, ops=[_POS[type(test.ops[0])]()], comparators=test.comparators)
        ast.copy_location(t2, test)
        return t2, not pol
    return test, pol


def cond_is(test: ast.AST, pol: bool, pattern: str, want: bool = True, binds=None):
    """does the condition (test with polarity) say `pattern` (a positive pattern such as "$x in $l") with truth value want"""
    t, p = norm_cond(test, pol)
    m = match(pattern, t, binds)
    if m is not None and p == want:
        return m
    return None


def accumulated_list(func: Func, name: str) -> Optional[ast.AST]:
    """expression equivalent to the final value of local list `name` when it is defined once by a list literal and grown by
    exactly one accumulate loop (`for v in X: [guards] name.append(E)`): `<literal> + [E for v in X if guards]`; else None"""
    inits = []
    for n in walk_no_nested(func.node):
        if isinstance(n, (ast.Assign, ast.AnnAssign)):
            tg = n.targets if isinstance(n, ast.Assign) else [n.target]
            if any(isinstance(t, ast.Name) and t.id == name for t in tg):
                inits.append(n)
        elif isinstance(n, ast.AugAssign) and isinstance(n.target, ast.Name) and n.target.id == name:
            inits.append(n)
    if len(inits) != 1 or not isinstance(inits[0], (ast.Assign, ast.AnnAssign)) or \
            not isinstance(inits[0].value, (ast.List, ast.ListComp)):
        return None
    cs = [c for c in collects(func) if c.kind == 'loop' and c.acc == name]
    other_mut = [n for n in walk_no_nested(func.node) if isinstance(n, ast.Call) and isinstance(n.func, ast.Attribute) and
                 isinstance(n.func.value, ast.Name) and n.func.value.id == name and n.func.attr not in ('append',)
                 and n.func.attr in ('extend', 'insert', 'remove', 'pop', 'clear', 'sort', 'reverse')]
    if len(cs) > 1 or other_mut:
        return None
    if isinstance(inits[0].value, ast.ListComp) and cs:
        return None
    c = cs[0] if cs else None
    # single appends outside every loop contribute one element each
    singles = []
    for n in walk_no_nested(func.node):
        if isinstance(n, ast.Expr) and isinstance(n.value, ast.Call) and isinstance(n.value.func, ast.Attribute) and \
                n.value.func.attr == 'append' and isinstance(n.value.func.value, ast.Name) and n.value.func.value.id == name and \
                len(n.value.args) == 1:
            in_loop = any(isinstance(l, (ast.For, ast.While)) and any(x is n for x in ast.walk(l)) for l in walk_no_nested(func.node))
            if not in_loop:
                cfg = cfg_of(func)
                if cfg.conditions(cfg.node_of(n)) != cfg.conditions(cfg.node_of(inits[0])):
                    return None      # conditional extra element: not expressible
                singles.append(copy.deepcopy(n.value.args[0]))
    if c is None:
        # no fill loop: `xs = [..]` or `xs = [E for ..]` followed by unconditional single appends
        if not singles:
            return None
        first = copy.deepcopy(inits[0].value)
        if isinstance(first, ast.List):
            out = ast.List(elts=first.elts + singles, ctx=ast.Load())
        else:
            out = ast.BinOp(left=first, op=ast.Add(), right=ast.List(elts=singles, ctx=ast.Load()))
        ast.copy_location(out, inits[0])
        ast.fix_missing_locations(out)
        return out
    ifs = []
    for t, p in c.conds:
        ifs.append(copy.deepcopy(t) if p else ast.UnaryOp(op=ast.Not(), operand=copy.deepcopy(t)))
    comp = ast.ListComp(elt=copy.deepcopy(c.elt), generators=[ast.comprehension(target=copy.deepcopy(c.target), iter=copy.deepcopy(c.iter),
                                                                                ifs=ifs, is_async=0)])
    lit = ast.List(elts=[copy.deepcopy(e) for e in inits[0].value.elts] + singles, ctx=ast.Load())
    out = ast.BinOp(left=comp, op=ast.Add(), right=lit) if lit.elts else comp
    ast.copy_location(out, inits[0])
    ast.fix_missing_locations(out)
    return out
