"""Rational normal form over opaque atoms: enough to decide equalities such as  1 - (C - R)/C == R/C.

Rat = (num, den), both polynomials: dict {tuple(sorted atom keys with multiplicity): Fraction}.
Atoms are arbitrary sub-expressions identified by their structural dump (after the caller's expansion);
`timedelta(days=k)` becomes k*DAY, `timedelta(hours=h)` becomes (h/24)*DAY, midnight idioms become the atom MID(<d>).
"""
from __future__ import annotations

import ast
from fractions import Fraction
from typing import Dict, Optional, Tuple

from . import facts
from .pat import dump, _strip_ctx

Poly = Dict[Tuple[str, ...], Fraction]


def _padd(a: Poly, b: Poly, sign=1) -> Poly:
    r = dict(a)
    for k, v in b.items():
        r[k] = r.get(k, Fraction(0)) + sign * v
        if r[k] == 0:
            del r[k]
    return r


def _pmul(a: Poly, b: Poly) -> Poly:
    r: Poly = {}
    for k1, v1 in a.items():
        for k2, v2 in b.items():
            k = tuple(sorted(k1 + k2))
            r[k] = r.get(k, Fraction(0)) + v1 * v2
            if r[k] == 0:
                del r[k]
    return r


def const(c) -> 'Rat':
    return Rat({(): Fraction(c)} if c != 0 else {}, {(): Fraction(1)})


def atom(key: str) -> 'Rat':
    return Rat({(key,): Fraction(1)}, {(): Fraction(1)})


class Rat:
    def __init__(self, num: Poly, den: Poly):
        self.num, self.den = num, den

    def __add__(self, o):
        return Rat(_padd(_pmul(self.num, o.den), _pmul(o.num, self.den)), _pmul(self.den, o.den))

    def __sub__(self, o):
        return Rat(_padd(_pmul(self.num, o.den), _pmul(o.num, self.den), -1), _pmul(self.den, o.den))

    def __mul__(self, o):
        return Rat(_pmul(self.num, o.num), _pmul(self.den, o.den))

    def __truediv__(self, o):
        return Rat(_pmul(self.num, o.den), _pmul(self.den, o.num))

    def __neg__(self):
        return const(0) - self

    def equals(self, o) -> bool:
        return _pmul(self.num, o.den) == _pmul(o.num, self.den)

    def atoms(self):
        s = set()
        for p in (self.num, self.den):
            for k in p:
                s.update(k)
        return s

    def __repr__(self):
        def pp(p):
            if not p:
                return '0'
            return ' + '.join(f"{v}*{'*'.join(a[:40] for a in k) or '1'}" for k, v in sorted(p.items()))
        return f"({pp(self.num)}) / ({pp(self.den)})"


def key_of(e: ast.AST) -> str:
    try:
        return ast.unparse(e)
    except Exception:
        return _strip_ctx(dump(e))


def to_rat(e: ast.AST, atom_key=key_of) -> Rat:
    """normal form of an arithmetic expression; every non arithmetic sub-expression is an atom"""
    if isinstance(e, ast.Constant) and isinstance(e.value, (int, float)) and not isinstance(e.value, bool):
        return const(Fraction(e.value).limit_denominator(10 ** 9))
    if isinstance(e, ast.UnaryOp) and isinstance(e.op, ast.USub):
        return -to_rat(e.operand, atom_key)
    if isinstance(e, ast.UnaryOp) and isinstance(e.op, ast.UAdd):
        return to_rat(e.operand, atom_key)
    if isinstance(e, ast.BinOp):
        if isinstance(e.op, ast.Add):
            return to_rat(e.left, atom_key) + to_rat(e.right, atom_key)
        if isinstance(e.op, ast.Sub):
            return to_rat(e.left, atom_key) - to_rat(e.right, atom_key)
        if isinstance(e.op, ast.Mult):
            return to_rat(e.left, atom_key) * to_rat(e.right, atom_key)
        if isinstance(e.op, ast.Div):
            return to_rat(e.left, atom_key) / to_rat(e.right, atom_key)
    mid = facts.is_midnight_of(e)
    if mid is not None:
        return atom('MID(' + atom_key(mid) + ')')
    if isinstance(e, ast.Call) and isinstance(e.func, ast.Name) and e.func.id == 'timedelta':
        total = const(0)
        names = ['days', 'seconds', 'microseconds', 'milliseconds', 'minutes', 'hours', 'weeks']
        scale = {'days': Fraction(1), 'hours': Fraction(1, 24), 'minutes': Fraction(1, 1440), 'seconds': Fraction(1, 86400),
                 'weeks': Fraction(7), 'milliseconds': Fraction(1, 86400000), 'microseconds': Fraction(1, 86400000000)}
        items = list(zip(names, e.args)) + [(k.arg, k.value) for k in e.keywords]
        for n, v in items:
            if n not in scale:
                return atom(atom_key(e))
            total = total + to_rat(v, atom_key) * const(scale[n])
        return total * atom('DAY')
    return atom(atom_key(e))
