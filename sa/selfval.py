"""Thorough tier: checker self-validation on the current tree (all static: nothing from /repo is imported or executed).

1. Break synthesis: syntactic single-point breaks (statement deletion, negated condition, comparison / boolean / min-max
   swaps, off-by-one constants, dropped operand, sibling attribute swap) are applied IN MEMORY to the property's anchor
   files (properties.jsonl anchors.files); the property's obligations are re-evaluated on each variant.  The kill
   matrix (variant -> exit 0 / 1 / 2) goes into the evidence.  A surviving variant is an equivalent edit, an edit outside
   the property's scope, or a gap of the rules: survivors are listed so that they can be triaged; they do not change
   the verdict on the tree.
2. Regression of confirmed breaks: every seeded change under /verif/seeded that this property's check is on record as
   reporting (meta.json `caught_by`, written by `tools/seeded.py --all-props --record`) is applied to a scratch copy and
   must still end in a VIOLATION.  A confirmed break that is no longer reported means the checker is broken: the run
   ends with exit 2 (never a pass).  Changes not yet triaged and changes recorded as outside the technique
   (`static_miss`) are not in the set.

VERIF_SEED only selects which variants are sampled when a file yields more than the budget.
"""
from __future__ import annotations

import ast
import copy
import json
import os
import random
import shutil
import subprocess
import tempfile
import time
from concurrent.futures import ProcessPoolExecutor
from typing import Dict, List, Tuple

HERE = os.path.dirname(os.path.dirname(os.path.abspath(__file__)))

CMP_SWAP = {ast.Lt: ast.LtE, ast.LtE: ast.Lt, ast.Gt: ast.GtE, ast.GtE: ast.Gt, ast.Eq: ast.NotEq, ast.NotEq: ast.Eq,
            ast.Is: ast.IsNot, ast.IsNot: ast.Is, ast.In: ast.NotIn, ast.NotIn: ast.In}
ATTR_SWAP = {'children': 'all_children', 'all_children': 'children', 'predecessors': 'successors', 'successors': 'predecessors',
             'all_parents': 'all_children', 'start': 'end', 'end': 'start', 'estimate': 'spent', 'spent': 'estimate',
             'roots': 'tasks', 'tasks': 'roots', 'all_predecessors': 'all_successors', 'all_successors': 'all_predecessors',
             'append': 'remove', 'units': 'date'}
NAME_SWAP = {'max': 'min', 'min': 'max', 'any': 'all', 'all': 'any'}


def _variants_of(src: str, rel: str) -> List[Tuple[str, str]]:
    """[(description, mutated source)] - one edit each, only inside function bodies"""
    tree = ast.parse(src)
    out: List[Tuple[str, str]] = []
    funcs = [n for n in ast.walk(tree) if isinstance(n, (ast.FunctionDef, ast.AsyncFunctionDef))]
    seen_desc = set()

    def emit(desc, mutate):
        t2 = copy.deepcopy(tree)
        try:
            if mutate(t2) is False:
                return
            ast.fix_missing_locations(t2)
            new = ast.unparse(t2)
            compile(new, rel, 'exec')
        except Exception:
            return
        if desc not in seen_desc:
            seen_desc.add(desc)
            out.append((desc, new))

    # index nodes by (lineno, col, type) path so the same node can be found in the copy
    def locate(t2, key):
        for n in ast.walk(t2):
            if (type(n).__name__, getattr(n, 'lineno', None), getattr(n, 'col_offset', None), getattr(n, 'end_col_offset', None)) == key:
                return n
        return None

    def key_of(n):
        return (type(n).__name__, getattr(n, 'lineno', None), getattr(n, 'col_offset', None), getattr(n, 'end_col_offset', None))

    for fn in funcs:
        for n in ast.walk(fn):
            k = key_of(n)
            ln = getattr(n, 'lineno', 0)
            where = f"{rel}:{ln} {fn.name}"
            if isinstance(n, (ast.Expr, ast.Assign, ast.AugAssign)) and not (isinstance(n, ast.Expr) and isinstance(n.value, ast.Constant)):
                def m(t2, k=k):
                    for parent in ast.walk(t2):
                        for fld in ('body', 'orelse', 'finalbody'):
                            body = getattr(parent, fld, None)
                            if isinstance(body, list):
                                for i, s in enumerate(body):
                                    if key_of(s) == k:
                                        body[i] = ast.Pass()
                                        return True
                    return False
                emit(f"{where}: delete `{ast.unparse(n)[:60]}`", m)
            if isinstance(n, (ast.If, ast.While)):
                def m(t2, k=k):
                    x = locate(t2, k)
                    if x is None:
                        return False
                    x.test = ast.UnaryOp(op=ast.Not(), operand=x.test)
                emit(f"{where}: negate `{ast.unparse(n.test)[:60]}`", m)
                if isinstance(n, ast.If) and any(isinstance(s, ast.Raise) for s in n.body):
                    def m2(t2, k=k):
                        x = locate(t2, k)
                        if x is None:
                            return False
                        x.test = ast.Constant(value=False)
                    emit(f"{where}: disable guard `{ast.unparse(n.test)[:60]}`", m2)
            if isinstance(n, ast.Compare) and len(n.ops) == 1 and type(n.ops[0]) in CMP_SWAP:
                def m(t2, k=k):
                    x = locate(t2, k)
                    if x is None:
                        return False
                    x.ops = [CMP_SWAP[type(x.ops[0])]()]
                emit(f"{where}: `{ast.unparse(n)[:50]}` -> {CMP_SWAP[type(n.ops[0])].__name__}", m)
            if isinstance(n, ast.BoolOp) and len(n.values) >= 2:
                def m(t2, k=k):
                    x = locate(t2, k)
                    if x is None:
                        return False
                    x.op = ast.Or() if isinstance(x.op, ast.And) else ast.And()
                emit(f"{where}: and<->or in `{ast.unparse(n)[:50]}`", m)
                for i in range(len(n.values)):
                    def m(t2, k=k, i=i):
                        x = locate(t2, k)
                        if x is None:
                            return False
                        del x.values[i]
                        if len(x.values) == 1:
                            # replace BoolOp by its remaining operand
                            for parent in ast.walk(t2):
                                for f_, v in ast.iter_fields(parent):
                                    if v is x:
                                        setattr(parent, f_, x.values[0])
                                        return True
                                    if isinstance(v, list) and x in v:
                                        v[v.index(x)] = x.values[0]
                                        return True
                            return False
                    emit(f"{where}: drop operand {i} of `{ast.unparse(n)[:50]}`", m)
            if isinstance(n, ast.Call) and isinstance(n.func, ast.Name) and n.func.id in NAME_SWAP:
                def m(t2, k=k):
                    x = locate(t2, k)
                    if x is None:
                        return False
                    x.func.id = NAME_SWAP[x.func.id]
                emit(f"{where}: {n.func.id}->{NAME_SWAP[n.func.id]} in `{ast.unparse(n)[:50]}`", m)
                if n.func.id in ('max', 'min') and len(n.args) >= 2:
                    for i in range(len(n.args)):
                        def m(t2, k=k, i=i):
                            x = locate(t2, k)
                            if x is None:
                                return False
                            del x.args[i]
                        emit(f"{where}: drop argument {i} of `{ast.unparse(n)[:50]}`", m)
            if isinstance(n, ast.Constant) and isinstance(n.value, int) and not isinstance(n.value, bool) and abs(n.value) <= 24:
                def m(t2, k=k):
                    x = locate(t2, k)
                    if x is None:
                        return False
                    x.value = x.value + 1
                emit(f"{where}: constant {n.value} -> {n.value + 1}", m)
            if isinstance(n, ast.Attribute) and n.attr in ATTR_SWAP and isinstance(n.ctx, ast.Load):
                def m(t2, k=k):
                    x = locate(t2, k)
                    if x is None:
                        return False
                    x.attr = ATTR_SWAP[x.attr]
                emit(f"{where}: .{n.attr} -> .{ATTR_SWAP[n.attr]} in `{ast.unparse(n)[:40]}`", m)
            if isinstance(n, ast.BinOp) and isinstance(n.op, (ast.Add, ast.Sub)):
                def m(t2, k=k):
                    x = locate(t2, k)
                    if x is None:
                        return False
                    x.op = ast.Sub() if isinstance(x.op, ast.Add) else ast.Add()
                emit(f"{where}: +<->- in `{ast.unparse(n)[:50]}`", m)
    return out


def _eval_variant(args):
    prop, rel, desc, new_src = args
    import sys
    sys.path.insert(0, HERE)
    import check
    try:
        code, ctx = check.run_property(prop, 'quick', 0, overrides={rel: new_src}, quiet=True)
        hit = []
        if code == 1:
            hit = [o.id for o in ctx.obligations if o.verdict == 'REFUTED'][:3]
        return desc, code, hit
    except Exception as e:       # a crash of the checker on a variant is an undecided variant
        return desc, 2, [f"crash: {type(e).__name__}: {e}"[:80]]


def _seeded_for(prop: str) -> List[str]:
    d = os.path.join(HERE, 'seeded')
    out = []
    if not os.path.isdir(d):
        return out
    for sid in sorted(os.listdir(d)):
        mp = os.path.join(d, sid, 'meta.json')
        if not os.path.exists(mp):
            continue
        try:
            meta = json.load(open(mp))
        except Exception:
            continue
        if meta.get('expected') == 'exit0':
            continue
        # regression set = changes this property's check is on record as reporting (`caught_by`, written by
        # `tools/seeded.py --all-props --record` after a triaged run); a change that was collected but not yet triaged, or
        # that is recorded as outside the technique (`static_miss`), is not part of it
        if prop in meta.get('caught_by', []):
            out.append(sid)
    return out


def _eval_seeded(args):
    prop, sid, repo = args
    tmp = tempfile.mkdtemp(prefix='selfval_')
    try:
        shutil.copytree(os.path.join(repo, 'src'), os.path.join(tmp, 'src'))
        subprocess.run(['git', 'init', '-q'], cwd=tmp, check=True)
        r = subprocess.run(['git', 'apply', os.path.join(HERE, 'seeded', sid, 'patch.diff')], cwd=tmp, capture_output=True, text=True)
        if r.returncode != 0:
            return sid, 'patch-does-not-apply', []
        import sys
        sys.path.insert(0, HERE)
        import check
        from sa.model import Program
        overrides = {}
        for dirpath, _, files in os.walk(os.path.join(tmp, 'src')):
            for fn in files:
                if fn.endswith(('.py', '.html')):
                    p = os.path.join(dirpath, fn)
                    overrides[os.path.relpath(p, tmp)] = open(p, encoding='utf-8').read()
        code, ctx = check.run_property(prop, 'quick', 0, overrides=overrides, quiet=True)
        hit = [o.id for o in ctx.obligations if o.verdict == 'REFUTED'][:3]
        return sid, code, hit
    except Exception as e:
        return sid, f"crash {type(e).__name__}: {e}"[:100], []
    finally:
        shutil.rmtree(tmp, ignore_errors=True)


def run(prop: str, ctx, seed: int, out) -> dict:
    t0 = time.time()
    budget = int(os.environ.get('VERIF_VARIANTS', '480'))
    props = {}
    for l in open(os.path.join(HERE, 'properties.jsonl')):
        p = json.loads(l)
        props[p['id']] = p
    files = props[prop]['anchors']['files']
    repo = ctx.prog.repo
    jobs = []
    per_file = {}
    for rel in files:
        m = next((m for m in ctx.prog.modules.values() if m.rel == rel), None)
        if m is None:
            continue
        # the un-mangled original text is needed: read it again from disk
        with open(os.path.join(repo, rel), encoding='utf-8') as fh:
            src = fh.read()
        vs = _variants_of(src, rel)
        per_file[rel] = len(vs)
        jobs += [(prop, rel, d, s) for d, s in vs]
    total_generated = len(jobs)
    rng = random.Random(seed)
    if len(jobs) > budget:
        jobs = rng.sample(jobs, budget)
    jobs.sort(key=lambda j: j[2])
    results = []
    workers = min(16, os.cpu_count() or 4)
    with ProcessPoolExecutor(max_workers=workers) as ex:
        for r in ex.map(_eval_variant, jobs, chunksize=4):
            results.append(r)
    killed = [r for r in results if r[1] == 1]
    undec = [r for r in results if r[1] == 2]
    surv = [r for r in results if r[1] == 0]
    by_ob: Dict[str, int] = {}
    for _, _, hit in killed:
        for h in hit[:1]:
            by_ob[h] = by_ob.get(h, 0) + 1
    # confirmed breaks
    sids = _seeded_for(prop)
    sres = []
    with ProcessPoolExecutor(max_workers=workers) as ex:
        for r in ex.map(_eval_seeded, [(prop, s, repo) for s in sids]):
            sres.append(r)
    lost = [r for r in sres if r[1] != 1 and r[1] != 'patch-does-not-apply']
    out(f"  self-validation: {len(results)} syntactic variants of {', '.join(files)} ({total_generated} generated): "
        f"{len(killed)} -> VIOLATION, {len(undec)} -> undecided, {len(surv)} survive; confirmed breaks re-detected: "
        f"{sum(1 for r in sres if r[1] == 1)}/{len([r for r in sres if r[1] != 'patch-does-not-apply'])}; {time.time() - t0:.1f}s")
    for r in lost:
        out(f"  self-validation: confirmed break {r[0]} is NOT reported any more (result {r[1]})")
    extra = {
        'selfval': {
            'variants_generated': total_generated, 'variants_evaluated': len(results), 'per_file': per_file,
            'killed': len(killed), 'undecided': len(undec), 'survived': len(surv),
            'killed_by_first_obligation': by_ob,
            'survivors': [r[0] for r in surv][:400],
            'undecided_variants': [f"{r[0]} ({'; '.join(r[2])})" for r in undec][:60],
            'confirmed_breaks': [{'id': r[0], 'result': r[1], 'obligations': r[2]} for r in sres],
            'seed': seed, 'budget': budget,
        },
        'evaluations': sum(len(o.sites) for o in ctx.obligations) + len(results) + len(sres),
        'rule': 'evaluations = program sites decided by the obligations on the tree + syntactic break variants of the anchor files '
                're-analysed in memory + confirmed seeded breaks re-analysed; distinct_nontrivial = obligations with a matched site',
    }
    if lost:
        extra['selfval_broken'] = 'confirmed break(s) no longer detected: ' + ', '.join(r[0] for r in lost)
    return extra
