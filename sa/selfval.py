"""thorough tier: checker self-validation (filled in later)"""
def run(prop, ctx, seed, out):
    return {}
