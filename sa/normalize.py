"""Source normalisation applied to the parsed modules before they are indexed (AST -> AST, positions kept).

Purpose: rules anchor on the functions of the reference tree (`sa/baseline.json`, the qualified names of every function and
module constant of /repo at the time the rules were written).  A behaviour-preserving refactoring typically *adds* private
helpers, named constants and keyword arguments; a realistic bug does the same.  Both are folded back before analysis:

  1. private helper functions that are not in the baseline are inlined at their call sites
       - value helpers (straight-line assignments + if/return chains) as one expression,
       - procedure helpers (assignments, ifs, for loops, raises, guard returns) as a spliced statement block,
         with parameters substituted / bound and locals renamed;
  2. module-level constants that are not in the baseline are replaced by their value;
  3. keyword arguments of calls to package functions are turned into positional ones.

Nothing is decided here: the baseline only selects what gets folded, it never makes a rule fire or pass by itself.
A helper that cannot be folded (recursion, return inside a loop, try/with, generators) is left alone and the rules that
need to see through it report UNDECIDED.
"""
from __future__ import annotations

import ast
import copy
import json
import os
from typing import Dict, List, Optional, Tuple

HERE = os.path.dirname(os.path.abspath(__file__))
_BASE = None


def baseline() -> dict:
    global _BASE
    if _BASE is None:
        p = os.path.join(HERE, 'baseline.json')
        _BASE = json.load(open(p)) if os.path.exists(p) else {'functions': [], 'constants': {}}
        _BASE['functions'] = set(_BASE['functions'])
        if 'inlinable' in _BASE:
            _BASE['inlinable'] = set(_BASE['inlinable'])
    return _BASE


class Unsupported(Exception):
    pass


class FD:
    def __init__(self, qual, node, modname, cls, kind):
        self.qual, self.node, self.modname, self.cls, self.kind = qual, node, modname, cls, kind
        a = node.args
        self.params = [x.arg for x in a.posonlyargs + a.args]
        self.has_star = bool(a.vararg or a.kwarg or a.kwonlyargs)
        self.defaults = dict(zip(self.params[len(self.params) - len(a.defaults):], a.defaults)) if a.defaults else {}


def _kind(fd_node) -> str:
    if len(fd_node.decorator_list) > 1:
        return 'other'          # stacked decorators (`@staticmethod` over `@lru_cache`): never folded
    for d in fd_node.decorator_list:
        if isinstance(d, ast.Name) and d.id in ('staticmethod',):
            return 'static'
        if isinstance(d, ast.Name) and d.id in ('property', 'classmethod', 'abstractmethod'):
            return 'other'
        if isinstance(d, ast.Attribute) and d.attr in ('setter', 'getter', 'deleter'):
            return 'other'
        return 'other'
    return 'method'


def collect(trees: Dict[str, ast.Module]) -> Tuple[Dict[str, FD], Dict[str, Dict[str, FD]], Dict[str, List[str]]]:
    funcs: Dict[str, FD] = {}
    by_class: Dict[str, Dict[str, FD]] = {}
    bases: Dict[str, List[str]] = {}
    for modname, tree in trees.items():
        for st in tree.body:
            if isinstance(st, ast.FunctionDef):
                # a decorated module-level function (`@lru_cache`, `@contextmanager` ..) is not its body: never folded
                funcs[f"{modname}.{st.name}"] = FD(f"{modname}.{st.name}", st, modname, None,
                                                   'function' if not st.decorator_list else 'other')
            elif isinstance(st, ast.ClassDef):
                bases[st.name] = [b.id if isinstance(b, ast.Name) else getattr(b, 'attr', '') for b in st.bases]
                for m in st.body:
                    if isinstance(m, ast.FunctionDef):
                        k = _kind(m)
                        fd = FD(f"{modname}.{st.name}.{m.name}", m, modname, st.name, k)
                        funcs[fd.qual] = fd
                        if k in ('method', 'static'):
                            by_class.setdefault(st.name, {})[m.name] = fd
    return funcs, by_class, bases


def _mro(cls, bases):
    out, todo, seen = [], [cls], set()
    while todo:
        c = todo.pop(0)
        if c in seen:
            continue
        seen.add(c)
        out.append(c)
        todo.extend(bases.get(c, []))
    return out


def _subclasses(cls, bases):
    return [c for c in bases if c != cls and cls in _mro(c, bases)]


class Normalizer:
    def __init__(self, trees: Dict[str, ast.Module]):
        self.trees = trees
        self.base = baseline()
        self.funcs, self.by_class, self.bases = collect(trees)
        self.counter = 0
        self.log: List[str] = []
        self._value_cache: Dict[str, Optional[ast.AST]] = {}
        self.candidates = {q for q, fd in self.funcs.items() if self._is_candidate(fd)}

    # ------------------------------------------------------------------ candidate selection
    def _is_candidate(self, fd: FD) -> bool:
        name = fd.node.name
        if fd.qual in self.base['functions'] or not self.base['functions']:
            return False
        if not name.startswith('_') or (name.startswith('__') and name.endswith('__')):
            return False
        if fd.kind not in ('function', 'method', 'static') or fd.has_star:
            return False
        if fd.cls and any(name in self.by_class.get(s, {}) for s in _subclasses(fd.cls, self.bases)):
            return False
        # a mutable default is ONE object shared by all calls: folding the helper would make it look fresh per call
        a = fd.node.args
        for dflt in list(a.defaults) + [d for d in a.kw_defaults if d is not None]:
            if isinstance(dflt, (ast.List, ast.Dict, ast.Set)) or (isinstance(dflt, ast.Call) and isinstance(dflt.func, ast.Name) and
                                                                    dflt.func.id in ('list', 'dict', 'set')):
                return False
        for n in ast.walk(fd.node):
            if isinstance(n, (ast.Yield, ast.YieldFrom, ast.Try, ast.With, ast.Global, ast.Nonlocal, ast.Lambda)) and not isinstance(n, ast.Lambda):
                return False
            if isinstance(n, (ast.FunctionDef, ast.ClassDef)) and n is not fd.node:
                return False
            # recursion
            if isinstance(n, ast.Call):
                f = n.func
                if (isinstance(f, ast.Name) and f.id == name) or (isinstance(f, ast.Attribute) and f.attr == name):
                    return False
        return True

    def _ctor(self, name: str) -> Optional[FD]:
        """constructor of a package class as a pseudo function: explicit __init__ or the field list of a dataclass"""
        if name in getattr(self, '_ctor_cache', {}):
            return self._ctor_cache[name]
        self._ctor_cache = getattr(self, '_ctor_cache', {})
        res = None
        for modname, tree in self.trees.items():
            for st in tree.body:
                if isinstance(st, ast.ClassDef) and st.name == name:
                    init = next((m for m in st.body if isinstance(m, ast.FunctionDef) and m.name == '__init__'), None)
                    if init is not None:
                        fd = FD(f"{modname}.{name}.__init__", init, modname, name, 'ctor')
                        fd.params = fd.params[1:]
                        res = fd
                    elif any('dataclass' in ast.unparse(d) for d in st.decorator_list):
                        fields = [m for m in st.body if isinstance(m, ast.AnnAssign) and isinstance(m.target, ast.Name)]
                        fake = ast.parse("def __init__(" + ", ".join(
                            f.target.id + ("=None" if f.value is not None else "") for f in fields) + "): pass").body[0]
                        fd = FD(f"{modname}.{name}.__init__", fake, modname, name, 'ctor')
                        for f_ in fields:
                            if f_.value is not None:
                                fd.defaults[f_.target.id] = f_.value
                        res = fd
        self._ctor_cache[name] = res
        return res

    def resolve(self, call: ast.Call, modname: str, cls: Optional[str], self_name: Optional[str]) -> Optional[Tuple[FD, Optional[ast.AST]]]:
        """(callee, receiver expression or None) for syntactically resolvable calls"""
        f = call.func
        if isinstance(f, ast.Name) and f"{modname}.{f.id}" not in self.funcs:
            c = self._ctor(f.id)
            if c is not None:
                return c, None
        if isinstance(f, ast.Name):
            fd = self.funcs.get(f"{modname}.{f.id}")
            if fd is None:
                # imported from another package module
                for q, x in self.funcs.items():
                    if x.kind == 'function' and x.node.name == f.id and q.split('.')[-1] == f.id and self._imported(modname, f.id, x.modname):
                        fd = x
            if fd is not None and fd.kind == 'function':
                return fd, None
        elif isinstance(f, ast.Attribute):
            if isinstance(f.value, ast.Name) and cls and f.value.id == self_name:
                for c in _mro(cls, self.bases):
                    fd = self.by_class.get(c, {}).get(f.attr)
                    if fd is not None:
                        return fd, (f.value if fd.kind == 'method' else None)
            if isinstance(f.value, ast.Name) and f.value.id in self.by_class:
                fd = self.by_class[f.value.id].get(f.attr)
                if fd is not None and fd.kind == 'static':
                    return fd, None
        return None

    def _imported(self, modname, name, from_mod) -> bool:
        for st in self.trees[modname].body:
            if isinstance(st, ast.ImportFrom) and st.module and st.module.endswith(from_mod.split('.')[-1]):
                if any((a.asname or a.name) == name for a in st.names):
                    return True
        return False

    # ------------------------------------------------------------------ binding
    def _bind(self, call: ast.Call, fd: FD, recv) -> Optional[Dict[str, ast.AST]]:
        params = list(fd.params)
        sub: Dict[str, ast.AST] = {}
        if fd.kind == 'method':
            if not params or recv is None:
                return None
            sub[params[0]] = recv
            params = params[1:]
        if any(isinstance(a, ast.Starred) for a in call.args) or any(k.arg is None for k in call.keywords):
            return None
        if len(call.args) > len(params):
            return None
        for p, a in zip(params, call.args):
            sub[p] = a
        for k in call.keywords:
            if k.arg not in params or k.arg in sub:
                return None
            sub[k.arg] = k.value
        for p in params:
            if p not in sub:
                if p in fd.defaults:
                    sub[p] = fd.defaults[p]
                else:
                    return None
        return sub

    # ------------------------------------------------------------------ value helpers
    def value_of(self, fd: FD) -> Optional[ast.AST]:
        if fd.qual in self._value_cache:
            return self._value_cache[fd.qual]
        self._value_cache[fd.qual] = None
        # comprehension variables of the helper must not capture names of the argument expressions
        self.counter += 1
        comp_vars = set()
        for n in ast.walk(fd.node):
            if isinstance(n, ast.comprehension):
                for x in ast.walk(n.target):
                    if isinstance(x, ast.Name):
                        comp_vars.add(x.id)
        if comp_vars:
            ren = {v: f"{v}__v{self.counter}" for v in comp_vars}
            node = copy.deepcopy(fd.node)
            for x in ast.walk(node):
                if isinstance(x, ast.Name) and x.id in ren:
                    x.id = ren[x.id]
            fd = FD(fd.qual, node, fd.modname, fd.cls, fd.kind)
        env: Dict[str, ast.AST] = {}
        assigned: Dict[str, int] = {}
        for n in ast.walk(fd.node):
            if isinstance(n, ast.Name) and isinstance(n.ctx, ast.Store):
                assigned[n.id] = assigned.get(n.id, 0) + 1
            if isinstance(n, (ast.For, ast.While, ast.AugAssign, ast.Raise)):
                return None

        def sub(e, env_):
            return _Subst(env_).visit(copy.deepcopy(e))

        def build(stmts, env_, d):
            if d > 8:
                return None
            env_ = dict(env_)
            for i, st in enumerate(stmts):
                if isinstance(st, ast.Expr) and (isinstance(st.value, ast.Constant) or _is_logging(st.value)):
                    continue
                if isinstance(st, ast.Pass):
                    continue
                if isinstance(st, ast.Return):
                    return sub(st.value, env_) if st.value is not None else ast.Constant(value=None)
                if isinstance(st, (ast.Assign, ast.AnnAssign)):
                    tg = st.targets if isinstance(st, ast.Assign) else [st.target]
                    if len(tg) == 1 and isinstance(tg[0], ast.Name) and st.value is not None:
                        env_[tg[0].id] = sub(st.value, env_)
                        continue
                    return None
                if isinstance(st, ast.If):
                    then = build(st.body, env_, d + 1)
                    if then is None:
                        return None
                    rest = build(list(st.orelse) + list(stmts[i + 1:]), env_, d + 1)
                    if rest is None:
                        return None
                    return ast.IfExp(test=sub(st.test, env_), body=then, orelse=rest)
                return None
            return None
        v = build(list(fd.node.body), env, 0)
        self._value_cache[fd.qual] = v
        return v

    # ------------------------------------------------------------------ procedure helpers
    def block_of(self, fd: FD, sub: Dict[str, ast.AST], result: Optional[str], at, tail: bool = False) -> Optional[List[ast.stmt]]:
        """tail=True: the call is the operand of a `return` statement of the caller - the helper's own `return` statements are
        kept as they are (they return from the caller, which is exactly what `return helper(..)` did)"""
        self.counter += 1
        tag = f"__i{self.counter}"
        pre: List[ast.stmt] = []
        env: Dict[str, ast.AST] = {}
        pren: Dict[str, str] = {}
        # parameters assigned inside the helper must become locals
        stored = {n.id for n in ast.walk(fd.node) if isinstance(n, ast.Name) and isinstance(n.ctx, ast.Store)}
        for p, a in sub.items():
            simple = isinstance(a, (ast.Name, ast.Constant)) or (isinstance(a, ast.Attribute) and isinstance(a.value, ast.Name))
            uses = sum(1 for n in ast.walk(fd.node) if isinstance(n, ast.Name) and n.id == p and isinstance(n.ctx, ast.Load))
            if (simple or uses <= 1) and p not in stored:
                env[p] = a
            else:
                nm = p + tag
                pre.append(ast.Assign(targets=[ast.Name(id=nm, ctx=ast.Store())], value=copy.deepcopy(a)))
                env[p] = ast.Name(id=nm, ctx=ast.Load())
                if p in stored:
                    pren[p] = nm          # the helper rebinds its parameter: stores must hit the same local copy
        locals_ = {n for n in stored if n not in sub}
        for st in ast.walk(fd.node):
            if isinstance(st, ast.comprehension):
                for n in ast.walk(st.target):
                    if isinstance(n, ast.Name):
                        locals_.add(n.id)
        ren = {n: n + tag for n in locals_}
        ren.update(pren)
        body = [s for s in copy.deepcopy(fd.node.body) if not (isinstance(s, ast.Expr) and isinstance(s.value, ast.Constant))]

        caller_result = result
        if result:
            result = f"__res{tag}"      # placeholder, so that a helper local of the same name is not confused with the target

        def conv(stmts) -> Tuple[List[ast.stmt], bool]:
            out: List[ast.stmt] = []
            for i, st in enumerate(stmts):
                if isinstance(st, ast.Return) and tail:
                    out.append(st)
                    return out, True
                if isinstance(st, ast.Return):
                    if result and st.value is not None:
                        out.append(ast.Assign(targets=[ast.Name(id=result, ctx=ast.Store())], value=st.value))
                    elif result:
                        out.append(ast.Assign(targets=[ast.Name(id=result, ctx=ast.Store())], value=ast.Constant(value=None)))
                    return out, True
                if isinstance(st, ast.If):
                    b, bt = conv(st.body)
                    e, et = conv(st.orelse)
                    if bt or et:
                        rest, rt = conv(stmts[i + 1:])
                        nb = b + ([] if bt else copy.deepcopy(rest))
                        ne = e + ([] if et else copy.deepcopy(rest))
                        out.append(ast.If(test=st.test, body=nb or [ast.Pass()], orelse=ne))
                        return out, (bt or (not bt and rt)) and (et or (not et and rt))
                    out.append(ast.If(test=st.test, body=b or [ast.Pass()], orelse=e))
                    continue
                if isinstance(st, (ast.For, ast.While)):
                    if any(isinstance(n, ast.Return) for n in ast.walk(st)) and not tail:
                        raise Unsupported('return inside loop')
                    out.append(st)
                    continue
                if isinstance(st, ast.Raise):
                    out.append(st)
                    return out, True          # nothing after a raise runs: the path is terminated
                if isinstance(st, (ast.Assign, ast.AugAssign, ast.AnnAssign, ast.Expr, ast.Pass, ast.Break, ast.Continue, ast.Delete)):
                    out.append(st)
                    continue
                raise Unsupported(type(st).__name__)
            return out, False
        try:
            # falling off the end returns None: made explicit, so that it is assigned only on the paths that really fall
            # through (a trailing `result = None` after the block would overwrite the values of the returning paths)
            new_body, term = conv(body + ([ast.Return(value=None)] if (result or tail) else []))
        except Unsupported:
            return None
        full = {}
        full.update(env)
        for k, v in ren.items():
            full[k] = ast.Name(id=v, ctx=ast.Load())
        tr = _Subst(full, rename_stores=ren)
        new_body = [tr.visit(s) for s in new_body]
        if caller_result:
            for s_ in new_body:
                for n in ast.walk(s_):
                    if isinstance(n, ast.Name) and n.id == result:
                        n.id = caller_result
        block = pre + new_body
        for s in block:
            for n in ast.walk(s):
                if hasattr(n, 'lineno') or isinstance(n, (ast.expr, ast.stmt)):
                    n.lineno = getattr(at, 'lineno', 1)
                    n.col_offset = getattr(at, 'col_offset', 0)
                    n.end_lineno = getattr(at, 'end_lineno', n.lineno)
                    n.end_col_offset = getattr(at, 'end_col_offset', 0)
        return block or [ast.Pass()]

    # ------------------------------------------------------------------ driver
    def _rename_private_fields(self):
        """A class in which exactly one private field of the reference tree (`baseline.json: fields`) no longer occurs and exactly
        one private field that the reference tree does not have occurs instead has renamed it: the new name is replaced by the
        reference name everywhere (inside the class `self.__new`, outside `x._C__new`, and in string constants `'_C__new'`), so
        that the rules, which anchor on the reference names, read the same program.  Any other difference (two renamed at once,
        a field added next to the old ones, one dropped without replacement) is left alone."""
        ref = self.base.get('fields') or {}
        for modname, tree in self.trees.items():
            for st in tree.body:
                if not isinstance(st, ast.ClassDef) or st.name not in ref:
                    continue
                methods = {d.name for d in st.body if isinstance(d, ast.FunctionDef)}
                cur = {n.attr for n in ast.walk(st) if isinstance(n, ast.Attribute) and n.attr.startswith('__')
                       and not n.attr.endswith('__') and n.attr not in methods}
                cur |= {t.id for d in st.body if isinstance(d, (ast.Assign, ast.AnnAssign))
                        for t in (d.targets if isinstance(d, ast.Assign) else [d.target])
                        if isinstance(t, ast.Name) and t.id.startswith('__') and not t.id.endswith('__')}
                gone, new = set(ref[st.name]) - cur, cur - set(ref[st.name])
                if len(gone) != 1 or len(new) != 1:
                    continue
                old_name, new_name = next(iter(gone)), next(iter(new))
                pre = '_' + st.name.lstrip('_')
                for n in ast.walk(st):
                    if isinstance(n, ast.Attribute) and n.attr == new_name:
                        n.attr = old_name
                    elif isinstance(n, ast.Name) and n.id == new_name:
                        n.id = old_name
                for t in self.trees.values():
                    for n in ast.walk(t):
                        if isinstance(n, ast.Attribute) and n.attr == pre + new_name:
                            n.attr = pre + old_name
                        elif isinstance(n, ast.Constant) and n.value == pre + new_name:
                            n.value = pre + old_name
                        elif isinstance(n, ast.keyword) and n.arg == pre + new_name:
                            n.arg = pre + old_name
                self.log.append(f"private field {st.name}.{new_name} read as the reference tree's {old_name} (renamed)")

    def _rename_underscore_variants(self):
        """A private module-level function / constant or a private method of the reference tree that is gone while a new private
        one whose name differs from it only in the number of leading underscores (`__parse_date` -> `_parse_date`) exists in the
        same scope has been renamed: it is given its reference name back (definition and every reference in the module / class).
        Skipped when the old name is still used for something, or when the new name is referenced from outside its scope."""
        fns = self.base['functions']
        consts = self.base.get('constants') or {}

        def variants(new, ref_names, defined):
            if not new.startswith('_') or new.endswith('__') or new in ref_names:
                return None
            c = [r for r in ref_names if r not in defined and r.startswith('_') and not r.endswith('__')
                 and r.lstrip('_') == new.lstrip('_')]
            return c[0] if len(c) == 1 else None

        for modname, tree in self.trees.items():
            # ---- module level
            ref = {q[len(modname) + 1:] for q in fns if q.startswith(modname + '.') and '.' not in q[len(modname) + 1:]}
            ref |= set(consts.get(modname, []))
            defined = {st.name for st in tree.body if isinstance(st, ast.FunctionDef)}
            defined |= {t.id for st in tree.body if isinstance(st, (ast.Assign, ast.AnnAssign))
                        for t in (st.targets if isinstance(st, ast.Assign) else [st.target]) if isinstance(t, ast.Name)}
            all_names = {n.id for n in ast.walk(tree) if isinstance(n, ast.Name)}
            for new in sorted(defined):
                old_name = variants(new, ref, defined)
                if old_name is None or old_name in all_names:
                    continue
                if any(isinstance(n, ast.ImportFrom) and any(a.name == new for a in n.names)
                       for t in self.trees.values() for n in ast.walk(t)):
                    continue
                for n in ast.walk(tree):
                    if isinstance(n, ast.Name) and n.id == new:
                        n.id = old_name
                    elif isinstance(n, ast.FunctionDef) and n.name == new and n in tree.body:
                        n.name = old_name
                self.log.append(f"{modname}.{new} read as the reference tree's {old_name} (renamed)")
            # ---- methods
            for st in tree.body:
                if not isinstance(st, ast.ClassDef):
                    continue
                pre = f"{modname}.{st.name}."
                ref = {q[len(pre):] for q in fns if q.startswith(pre) and '.' not in q[len(pre):]}
                defined = {d.name for d in st.body if isinstance(d, ast.FunctionDef)}
                inside = {id(n) for n in ast.walk(st)}
                for new in sorted(defined):
                    old_name = variants(new, ref, defined)
                    if old_name is None:
                        continue
                    if any(isinstance(n, ast.Attribute) and (n.attr == old_name or (n.attr == new and id(n) not in inside))
                           for t in self.trees.values() for n in ast.walk(t)):
                        continue
                    for n in ast.walk(st):
                        if isinstance(n, ast.Attribute) and n.attr == new:
                            n.attr = old_name
                        elif isinstance(n, ast.FunctionDef) and n.name == new and n in st.body:
                            n.name = old_name
                    self.log.append(f"{modname}.{st.name}.{new} read as the reference tree's {old_name} (renamed)")

    def _fold_running_extremum(self):
        """`acc = INIT; for v in X: [if E is None: continue]; if E > acc: acc = E` (also `acc < E`, `>=`, `acc = max(acc, E)`, the
        None test as an enclosing `if E is not None:` or as the first conjunct, `<` / `min` for the minimum) is the statement
        `acc = max([E for v in X if E is not None] + [INIT])` written as a loop (round 11: REF-C07-r112).  Folded only when the
        loop body is exactly that, `acc` and `v` are plain names, E does not mention `acc` and `v` is not read after the loop."""
        def is_none_test(t, want_none):
            if isinstance(t, ast.Compare) and len(t.ops) == 1 and isinstance(t.comparators[0], ast.Constant) and \
                    t.comparators[0].value is None and isinstance(t.ops[0], ast.Is if want_none else ast.IsNot):
                return t.left
            if not want_none and isinstance(t, ast.UnaryOp) and isinstance(t.op, ast.Not):
                return is_none_test(t.operand, True)
            return None

        def same(a, b):
            return ast.dump(a) == ast.dump(b)

        def update(st, acc):
            """(E, 'max'|'min') when st is `if E > acc: acc = E` / `acc = max(acc, E)` .."""
            if isinstance(st, ast.If) and not st.orelse and len(st.body) == 1 and isinstance(st.body[0], ast.Assign) and \
                    len(st.body[0].targets) == 1 and isinstance(st.body[0].targets[0], ast.Name) and \
                    st.body[0].targets[0].id == acc and isinstance(st.test, ast.Compare) and len(st.test.ops) == 1:
                e = st.body[0].value
                l, op, r = st.test.left, st.test.ops[0], st.test.comparators[0]
                if isinstance(r, ast.Name) and r.id == acc and same(l, e):
                    kind = 'max' if isinstance(op, (ast.Gt, ast.GtE)) else 'min' if isinstance(op, (ast.Lt, ast.LtE)) else None
                elif isinstance(l, ast.Name) and l.id == acc and same(r, e):
                    kind = 'max' if isinstance(op, (ast.Lt, ast.LtE)) else 'min' if isinstance(op, (ast.Gt, ast.GtE)) else None
                else:
                    kind = None
                return (e, kind) if kind else None
            if isinstance(st, ast.Assign) and len(st.targets) == 1 and isinstance(st.targets[0], ast.Name) and \
                    st.targets[0].id == acc and isinstance(st.value, ast.Call) and isinstance(st.value.func, ast.Name) and \
                    st.value.func.id in ('max', 'min') and len(st.value.args) == 2 and not st.value.keywords:
                a, b = st.value.args
                if isinstance(a, ast.Name) and a.id == acc:
                    return b, st.value.func.id
                if isinstance(b, ast.Name) and b.id == acc:
                    return a, st.value.func.id
            return None

        def loop_form(loop, acc):
            """(E, kind, filtered) for a matching loop"""
            body = list(loop.body)
            guard = None
            if len(body) == 2 and isinstance(body[0], ast.If) and not body[0].orelse and len(body[0].body) == 1 and \
                    isinstance(body[0].body[0], ast.Continue):
                guard = is_none_test(body[0].test, True)
                if guard is None:
                    return None
                body = body[1:]
            if len(body) != 1:
                return None
            st = body[0]
            if guard is None and isinstance(st, ast.If) and not st.orelse:
                g = is_none_test(st.test, False)
                if g is not None and len(st.body) == 1:
                    guard, st = g, st.body[0]
                elif isinstance(st.test, ast.BoolOp) and isinstance(st.test.op, ast.And) and len(st.test.values) == 2:
                    g = is_none_test(st.test.values[0], False)
                    if g is not None:
                        guard = g
                        st = ast.If(test=st.test.values[1], body=st.body, orelse=[])
            u = update(st, acc)
            if u is None:
                return None
            e, kind = u
            if guard is not None and not same(guard, e):
                return None
            if any(isinstance(n, ast.Name) and n.id == acc for n in ast.walk(e)):
                return None
            return e, kind, guard is not None

        def reads_after(stmts, v):
            for st in stmts:
                if isinstance(st, ast.For) and isinstance(st.target, ast.Name) and st.target.id == v and \
                        not any(isinstance(n, ast.Name) and n.id == v for n in ast.walk(st.iter)):
                    continue
                bound = set()
                for n in ast.walk(st):
                    if isinstance(n, (ast.ListComp, ast.SetComp, ast.GeneratorExp, ast.DictComp)) and any(
                            isinstance(t, ast.Name) and t.id == v for g in n.generators for t in ast.walk(g.target)):
                        bound |= {id(x) for x in ast.walk(n)}
                if any(isinstance(n, ast.Name) and n.id == v and isinstance(n.ctx, ast.Load) and id(n) not in bound
                       for n in ast.walk(st)):
                    return True
            return False

        def fold(stmts):
            i = 0
            while i + 1 < len(stmts):
                a, loop = stmts[i], stmts[i + 1]
                if isinstance(a, ast.Assign) and len(a.targets) == 1 and isinstance(a.targets[0], ast.Name) and \
                        isinstance(loop, ast.For) and not loop.orelse and isinstance(loop.target, ast.Name):
                    acc, v = a.targets[0].id, loop.target.id
                    f = loop_form(loop, acc) if acc != v else None
                    if f is not None and not reads_after(stmts[i + 2:], v) and \
                            not any(isinstance(n, ast.Name) and n.id in (acc,) for n in ast.walk(loop.iter)):
                        e, kind, filtered = f
                        comp = ast.ListComp(elt=copy.deepcopy(e), generators=[ast.comprehension(
                            target=ast.Name(id=v, ctx=ast.Store()), iter=loop.iter,
                            ifs=[ast.Compare(left=copy.deepcopy(e), ops=[ast.IsNot()], comparators=[ast.Constant(value=None)])]
                            if filtered else [], is_async=0)])
                        new = ast.Assign(targets=[ast.Name(id=acc, ctx=ast.Store())], value=ast.Call(
                            func=ast.Name(id=kind, ctx=ast.Load()),
                            args=[ast.BinOp(left=comp, op=ast.Add(), right=ast.List(elts=[a.value], ctx=ast.Load()))], keywords=[]))
                        ast.copy_location(new, a)
                        for n in ast.walk(new):
                            if not hasattr(n, 'lineno'):
                                ast.copy_location(n, a)
                        stmts[i:i + 2] = [new]
                        self.log.append(f"running {kind} loop over `{v}` folded into `{acc} = {kind}([..] + [..])` (line {a.lineno})")
                        continue
                i += 1

        for tree in self.trees.values():
            for n in ast.walk(tree):
                for fld in ('body', 'orelse', 'finalbody'):
                    b = getattr(n, fld, None)
                    if isinstance(b, list) and b and isinstance(b[0], ast.stmt):
                        fold(b)

    def run(self, rounds: int = 4):
        self._rename_private_fields()
        self._rename_underscore_variants()
        self._fold_running_extremum()
        for _ in range(rounds):
            changed = False
            for modname, tree in self.trees.items():
                for st in tree.body:
                    if isinstance(st, ast.FunctionDef):
                        changed |= self._process_function(st, modname, None)
                    elif isinstance(st, ast.ClassDef):
                        for m in st.body:
                            if isinstance(m, ast.FunctionDef):
                                changed |= self._process_function(m, modname, st.name)
            if not changed:
                break
        self._constants()
        self._local_constants()
        self._beta_reduce()
        self._attr_builtins()
        self._fold_constant_tests()
        self._drop_folded()

    def _fold_constant_tests(self):
        """`if <constant test>:` / `<a> if <constant test> else <b>` left behind when a helper was spliced with a constant
        argument (two near-duplicate functions merged behind a `direction` / flag parameter: `if 1 > 0:` ... `if not 1 > 0:`)
        are replaced by the branch that is taken.  Only tests built from literals, comparisons of literals, `not`, `and`,
        `or` are evaluated; names are never looked up."""
        me = self

        class T(ast.NodeTransformer):
            def visit_If(self, n):
                self.generic_visit(n)
                v = _const_truth(n.test)
                if v is None:
                    return n
                me.log.append(f"constant test `{ast.unparse(n.test)}` folded (line {getattr(n, 'lineno', '?')})")
                taken = n.body if v else n.orelse
                return taken if taken else ast.copy_location(ast.Pass(), n)

            def visit_IfExp(self, n):
                self.generic_visit(n)
                v = _const_truth(n.test)
                if v is None:
                    return n
                me.log.append(f"constant test `{ast.unparse(n.test)}` folded (line {getattr(n, 'lineno', '?')})")
                return n.body if v else n.orelse

        for tree in self.trees.values():
            T().visit(tree)
            # a body emptied by the fold keeps a `pass`
            for n in ast.walk(tree):
                for f in ('body', 'orelse', 'finalbody'):
                    b = getattr(n, f, None)
                    if isinstance(b, list) and not b and f == 'body' and isinstance(n, (ast.FunctionDef, ast.For, ast.While, ast.If, ast.With, ast.ClassDef, ast.Try, ast.ExceptHandler)):
                        b.append(ast.Pass())
            ast.fix_missing_locations(tree)

    def _drop_folded(self):
        """a helper whose every use was folded is removed, so that whole-package scans do not see its body twice"""
        for q in sorted(self.candidates):
            fd = self.funcs[q]
            name = fd.node.name
            used = False
            for tree in self.trees.values():
                for n in ast.walk(tree):
                    if n is fd.node:
                        continue
                    if (isinstance(n, ast.Name) and n.id == name) or (isinstance(n, ast.Attribute) and n.attr == name):
                        # references inside the helper itself do not count
                        if not any(x is n for x in ast.walk(fd.node)):
                            used = True
                            break
                if used:
                    break
            if used:
                continue
            tree = self.trees[fd.modname]
            if fd.cls is None:
                if fd.node in tree.body:
                    tree.body.remove(fd.node)
                    self.log.append(f"removed folded helper {q}")
            else:
                for st in tree.body:
                    if isinstance(st, ast.ClassDef) and st.name == fd.cls and fd.node in st.body:
                        st.body.remove(fd.node)
                        if not st.body:
                            st.body.append(ast.Pass())
                        self.log.append(f"removed folded helper {q}")

    def _process_function(self, fn: ast.FunctionDef, modname: str, cls: Optional[str]) -> bool:
        self_name = fn.args.args[0].arg if (cls and fn.args.args and _kind(fn) in ('method', 'other')) else None
        changed = False

        def expr_pass(node):
            nonlocal changed
            me = self

            class T(ast.NodeTransformer):
                def visit_FunctionDef(self, n):
                    if n is node:
                        self.generic_visit(n)
                    return n

                def visit_Call(self, c):
                    self.generic_visit(c)
                    r = me.resolve(c, modname, cls, self_name)
                    if r is None:
                        me._kw_by_name(c)
                        return c
                    fd, recv = r
                    if fd.qual in me.candidates and fd.node is not fn:
                        v = me.value_of(fd)
                        if v is None:
                            return c
                        sub = me._bind(c, fd, recv)
                        if sub is None:
                            return c
                        new = _Subst(sub).visit(copy.deepcopy(v))
                        for x in ast.walk(new):
                            ast.copy_location(x, c)
                        nonlocal_changed()
                        me.log.append(f"{modname}.{(cls + '.') if cls else ''}{fn.name}: inlined value helper {fd.qual}")
                        return new
                    # keyword arguments -> positional for calls of baseline functions
                    if c.keywords and not any(k.arg is None for k in c.keywords) and not fd.has_star:
                        params = fd.params[1:] if fd.kind == 'method' else list(fd.params)
                        kw = {k.arg: k.value for k in c.keywords}
                        if all(k in params for k in kw) and not any(isinstance(a, ast.Starred) for a in c.args):
                            args = list(c.args)
                            ok = True
                            for p in params[len(args):]:
                                if p in kw:
                                    args.append(kw.pop(p))
                                elif kw:
                                    if p in fd.defaults:
                                        args.append(copy.deepcopy(fd.defaults[p]))
                                    else:
                                        ok = False
                                        break
                                else:
                                    break
                            if ok and not kw:
                                c.args, c.keywords = args, []
                                nonlocal_changed()
                    return c

            def nonlocal_changed():
                nonlocal changed
                changed = True
            T().visit(node)

        def stmt_pass(body: List[ast.stmt]) -> List[ast.stmt]:
            nonlocal changed
            out: List[ast.stmt] = []
            for st in body:
                for fld in ('body', 'orelse', 'finalbody'):
                    sub_body = getattr(st, fld, None)
                    if isinstance(sub_body, list) and sub_body and isinstance(sub_body[0], ast.stmt) and not isinstance(st, (ast.FunctionDef, ast.ClassDef)):
                        setattr(st, fld, stmt_pass(sub_body))
                call, result = None, None
                tail_return = False
                if isinstance(st, ast.Expr) and isinstance(st.value, ast.Call):
                    call = st.value
                elif isinstance(st, ast.Assign) and len(st.targets) == 1 and isinstance(st.targets[0], ast.Name) and isinstance(st.value, ast.Call):
                    call, result = st.value, st.targets[0].id
                elif isinstance(st, ast.Assign) and len(st.targets) == 1 and isinstance(st.targets[0], ast.Tuple) and isinstance(st.value, ast.Call) \
                        and all(isinstance(e, ast.Name) for e in st.targets[0].elts):
                    # `a, b = helper(..)`: spliced with a placeholder result, every `placeholder = <returned tuple>` then becomes
                    # `a, b = <returned tuple>`
                    call, result = st.value, f"__tup{self.counter + 1}"
                elif isinstance(st, ast.Return) and isinstance(st.value, ast.Call):
                    # `return helper(..)`: spliced as `__ret = <helper body>; return __ret`
                    call, result, tail_return = st.value, None, True
                if call is not None:
                    r = self.resolve(call, modname, cls, self_name)
                    if r is not None and r[0].qual in self.candidates and r[0].node is not fn and self.value_of(r[0]) is None:
                        fd, recv = r
                        sub = self._bind(call, fd, recv)
                        blk = self.block_of(fd, sub, result, st, tail=tail_return) if sub is not None else None
                        if blk is not None and isinstance(st, ast.Assign) and isinstance(st.targets[0], ast.Tuple):
                            ok_t = True
                            for b_ in blk:
                                for n_ in ast.walk(b_):
                                    if isinstance(n_, ast.Assign) and len(n_.targets) == 1 and isinstance(n_.targets[0], ast.Name) and n_.targets[0].id == result:
                                        if isinstance(n_.value, ast.Tuple) and len(n_.value.elts) == len(st.targets[0].elts):
                                            n_.targets = [copy.deepcopy(st.targets[0])]
                                        else:
                                            ok_t = False
                            if not ok_t:
                                blk = None
                        if blk is not None:
                            out.extend(blk)
                            changed = True
                            self.log.append(f"{modname}.{(cls + '.') if cls else ''}{fn.name}: spliced procedure helper {fd.qual}")
                            continue
                out.append(st)
            return out

        fn.body = stmt_pass(fn.body)
        expr_pass(fn)
        return changed

    def _beta_reduce(self):
        """`(lambda x: E)(a)` -> E[x := a]: appears when a helper that takes a callback was folded and the caller passed a
        lambda; only for positional parameters without defaults, and arguments that are names / attribute paths / constants
        or used at most once in E (no duplicated evaluation)"""
        me = self

        class T(ast.NodeTransformer):
            def visit_Call(self_, c):
                self_.generic_visit(c)
                f = c.func
                if isinstance(f, ast.Lambda) and not c.keywords and not f.args.vararg and not f.args.kwarg and not f.args.kwonlyargs \
                        and not f.args.defaults and len(f.args.args) == len(c.args) and not any(isinstance(a, ast.Starred) for a in c.args):
                    names = [a.arg for a in f.args.args]
                    for nm, a in zip(names, c.args):
                        simple = isinstance(a, (ast.Name, ast.Constant)) or (isinstance(a, ast.Attribute) and isinstance(a.value, ast.Name))
                        uses = sum(1 for n in ast.walk(f.body) if isinstance(n, ast.Name) and n.id == nm)
                        if not simple and uses > 1:
                            return c
                    new = _Subst(dict(zip(names, c.args))).visit(copy.deepcopy(f.body))
                    for x in ast.walk(new):
                        ast.copy_location(x, c)
                    me.log.append("beta-reduced an immediately applied lambda")
                    return new
                return c
        for tree in self.trees.values():
            T().visit(tree)

    def _attr_builtins(self):
        """`setattr(X, 'name', V)` as an expression statement -> `X.name = V`; two-argument `getattr(X, 'name')` -> `X.name`
        (only for string constants that are identifiers; such literal names are not mangled by Python, and dunder-private
        names are left alone so that the later mangling pass cannot change their meaning)"""
        def plain(c):
            return isinstance(c, ast.Constant) and isinstance(c.value, str) and c.value.isidentifier() and \
                not (c.value.startswith('__') and not c.value.endswith('__'))

        class T(ast.NodeTransformer):
            def visit_Expr(self_, n):
                self_.generic_visit(n)
                c = n.value
                if isinstance(c, ast.Call) and isinstance(c.func, ast.Name) and c.func.id == 'setattr' and len(c.args) == 3 and \
                        not c.keywords and plain(c.args[1]):
                    tgt = ast.Attribute(value=c.args[0], attr=c.args[1].value, ctx=ast.Store())
                    new = ast.Assign(targets=[tgt], value=c.args[2])
                    ast.copy_location(new, n)
                    ast.copy_location(tgt, c)
                    ast.fix_missing_locations(new)
                    return new
                return n

            def visit_Call(self_, c):
                self_.generic_visit(c)
                if isinstance(c.func, ast.Name) and c.func.id == 'getattr' and len(c.args) == 2 and not c.keywords and plain(c.args[1]):
                    new = ast.Attribute(value=c.args[0], attr=c.args[1].value, ctx=ast.Load())
                    return ast.copy_location(new, c)
                return c
        for tree in self.trees.values():
            T().visit(tree)

    def _kw_by_name(self, c: ast.Call):
        """`obj.method(a=.., b=..)` on a receiver that cannot be resolved syntactically: when every package method of that name
        whose signature accepts the call puts the arguments in the same positional order, rewrite to that order"""
        if not c.keywords or any(k.arg is None for k in c.keywords) or not isinstance(c.func, ast.Attribute) or \
                any(isinstance(a, ast.Starred) for a in c.args):
            return
        name = c.func.attr
        if name in _BUILTIN_METHODS:
            return          # `xs.sort(key=.., reverse=..)` on a builtin list must not be mistaken for a package method
        results = []
        for clsname, methods in self.by_class.items():
            fd = methods.get(name)
            if fd is None or fd.kind != 'method' or fd.has_star:
                continue
            params = fd.params[1:]
            kw = {k.arg: k.value for k in c.keywords}
            if not all(k in params for k in kw) or len(c.args) > len(params):
                continue
            args = list(c.args)
            ok = True
            for p in params[len(args):]:
                if p in kw:
                    args.append(kw.pop(p))
                elif kw:
                    if p in fd.defaults:
                        args.append(copy.deepcopy(fd.defaults[p]))
                    else:
                        ok = False
                        break
                else:
                    break
            if ok and not kw:
                results.append(args)
        if results and all([ast.dump(a) for a in r] == [ast.dump(a) for a in results[0]] for r in results):
            c.args, c.keywords = results[0], []

    def _local_constants(self):
        """a local with a name the baseline function does not have, assigned exactly once, by a top-level statement of the
        function, from an immutable constant expression (number, timedelta(..), datetime(..)): uses are replaced by the value"""
        locs = self.base.get('locals')
        if not locs:
            return
        for q, fd in self.funcs.items():
            fn = fd.node
            known = locs.get(q)
            if known is None and q.endswith('.setter'):
                known = locs.get(q[:-7])
            if known is None:
                continue
            known = set(known) | {a.arg for a in fn.args.args + fn.args.kwonlyargs}
            stores = {}
            for n in ast.walk(fn):
                if isinstance(n, ast.Name) and isinstance(n.ctx, (ast.Store, ast.Del)):
                    stores[n.id] = stores.get(n.id, 0) + 1
                elif isinstance(n, (ast.Global, ast.Nonlocal)):
                    for x in n.names:
                        stores[x] = 99
            env = {}
            for i, st in enumerate(fn.body):
                if isinstance(st, (ast.Assign, ast.AnnAssign)) and st.value is not None:
                    tg = st.targets if isinstance(st, ast.Assign) else [st.target]
                    if len(tg) == 1 and isinstance(tg[0], ast.Name) and tg[0].id not in known and stores.get(tg[0].id) == 1 \
                            and _immutable_const(st.value):
                        # no use before the definition (source order inside the function)
                        first_use = min([n.lineno for n in ast.walk(fn) if isinstance(n, ast.Name) and n.id == tg[0].id and
                                         isinstance(n.ctx, ast.Load)] or [10 ** 9])
                        if first_use > st.lineno or first_use == 10 ** 9:
                            env[tg[0].id] = (st, st.value)
            if not env:
                continue
            drop = {id(st) for st, _ in env.values()}
            sub = {k: v for k, (_, v) in env.items()}
            fn.body = [_Subst(sub, keep_loc=True).visit(s) for s in fn.body if id(s) not in drop] or [ast.Pass()]
            for k in sorted(sub):
                self.log.append(f"local constant {k} folded in {q}")

    def _constants(self):
        for modname, tree in self.trees.items():
            known = set(self.base['constants'].get(modname, []))
            consts = {}
            for st in tree.body:
                if isinstance(st, (ast.Assign, ast.AnnAssign)):
                    tg = st.targets if isinstance(st, ast.Assign) else [st.target]
                    # only immutable values: folding `_ALL_ROWS = []` into `self.rows = _ALL_ROWS` would hide that every ledger
                    # shares one list
                    if len(tg) == 1 and isinstance(tg[0], ast.Name) and st.value is not None and tg[0].id not in known and _immutable_const(st.value):
                        consts[tg[0].id] = st.value
            if not consts or not self.base['functions']:
                continue
            for st in tree.body:
                if isinstance(st, (ast.FunctionDef, ast.ClassDef)):
                    for fn in ([st] if isinstance(st, ast.FunctionDef) else [m for m in st.body if isinstance(m, ast.FunctionDef)]):
                        bound = {a.arg for a in fn.args.args} | {n.id for n in ast.walk(fn) if isinstance(n, ast.Name) and isinstance(n.ctx, ast.Store)}
                        use = {k: v for k, v in consts.items() if k not in bound}
                        if use:
                            new_body = []
                            for s in fn.body:
                                s2 = _Subst(use, keep_loc=True).visit(s)
                                new_body.append(s2)
                            fn.body = new_body


_BUILTIN_METHODS = set(dir(list)) | set(dir(dict)) | set(dir(set)) | set(dir(str)) | set(dir(tuple))


def _const_value(e):
    """(True, value) for an expression made of literals only (comparisons, not/and/or, unary minus), else None"""
    if isinstance(e, ast.Constant) and not isinstance(e.value, (str, bytes)) or isinstance(e, ast.Constant) and e.value in ('',):
        return True, e.value
    if isinstance(e, ast.UnaryOp) and isinstance(e.op, (ast.Not, ast.USub)):
        r = _const_value(e.operand)
        if r is None:
            return None
        try:
            return True, (not r[1]) if isinstance(e.op, ast.Not) else -r[1]
        except Exception:
            return None
    if isinstance(e, ast.Compare) and len(e.ops) == 1:
        a, b = _const_value(e.left), _const_value(e.comparators[0])
        if a is None or b is None:
            return None
        op = e.ops[0]
        try:
            if isinstance(op, ast.Gt):
                return True, a[1] > b[1]
            if isinstance(op, ast.GtE):
                return True, a[1] >= b[1]
            if isinstance(op, ast.Lt):
                return True, a[1] < b[1]
            if isinstance(op, ast.LtE):
                return True, a[1] <= b[1]
            if isinstance(op, ast.Eq):
                return True, a[1] == b[1]
            if isinstance(op, ast.NotEq):
                return True, a[1] != b[1]
            if isinstance(op, ast.Is) and (a[1] is None or b[1] is None or isinstance(a[1], bool) and isinstance(b[1], bool)):
                return True, a[1] is b[1]
            if isinstance(op, ast.IsNot) and (a[1] is None or b[1] is None or isinstance(a[1], bool) and isinstance(b[1], bool)):
                return True, a[1] is not b[1]
        except Exception:
            return None
        return None
    if isinstance(e, ast.BoolOp):
        vals = [_const_value(v) for v in e.values]
        if any(v is None for v in vals):
            return None
        if isinstance(e.op, ast.And):
            return True, all(v[1] for v in vals)
        return True, any(v[1] for v in vals)
    return None


def _const_truth(test) -> Optional[bool]:
    """truth of an `if` / conditional-expression test made of literals only (`while` tests are never folded)"""
    if isinstance(test, ast.Constant):
        # a bare True / False is what a splice with a boolean flag argument leaves (`if False:` / `a if True else b`);
        # other bare literals (`if 0:`, `if 1:`) are left alone
        return test.value if isinstance(test.value, bool) else None
    r = _const_value(test)
    return bool(r[1]) if r is not None else None


def _immutable_const(x) -> bool:
    if isinstance(x, (ast.List, ast.Set, ast.Dict)):
        return False
    if isinstance(x, ast.Tuple):
        return all(_immutable_const(e) for e in x.elts)
    return _const_like(x)


def _const_like(x) -> bool:
    if isinstance(x, ast.Constant):
        return not isinstance(x.value, str) or len(x.value) < 40
    if isinstance(x, ast.UnaryOp):
        return _const_like(x.operand)
    if isinstance(x, ast.BinOp):
        return _const_like(x.left) and _const_like(x.right)
    if isinstance(x, ast.Call) and isinstance(x.func, ast.Name) and x.func.id in ('datetime', 'timedelta'):
        return all(_const_like(a) for a in x.args) and all(_const_like(k.value) for k in x.keywords)
    if isinstance(x, (ast.Tuple, ast.List)):
        return all(_const_like(e) for e in x.elts)
    if isinstance(x, ast.Name) and x.id in ('int', 'float', 'str', 'bool', 'bytes', 'complex', 'list', 'tuple', 'dict', 'set'):
        return True          # builtin type names, as in `_SCALAR_TYPES = (int, float)`
    return False


def _is_logging(v) -> bool:
    return isinstance(v, ast.Call) and isinstance(v.func, ast.Attribute) and isinstance(v.func.value, ast.Name) and \
        v.func.value.id in ('logging', 'logger', 'log', '_log', '_logger', 'LOG', '_LOG', 'LOGGER', '_LOGGER')


class _Subst(ast.NodeTransformer):
    def __init__(self, env: Dict[str, ast.AST], rename_stores: Optional[Dict[str, str]] = None, keep_loc: bool = False):
        self.env = env
        self.ren = rename_stores or {}
        self.keep_loc = keep_loc

    def visit_Name(self, n):
        if isinstance(n.ctx, ast.Load) and n.id in self.env:
            new = copy.deepcopy(self.env[n.id])
            if self.keep_loc:
                for x in ast.walk(new):
                    ast.copy_location(x, n)
            return new
        if isinstance(n.ctx, (ast.Store, ast.Del)) and n.id in self.ren:
            return ast.copy_location(ast.Name(id=self.ren[n.id], ctx=n.ctx), n)
        return n

    def _shadow(self, node, names):
        saved = self.env
        self.env = {k: v for k, v in self.env.items() if k not in names}
        self.generic_visit(node)
        self.env = saved
        return node

    def visit_Lambda(self, n):
        return self._shadow(n, {a.arg for a in n.args.args})


def apply(trees: Dict[str, ast.Module]) -> List[str]:
    n = Normalizer(trees)
    if not n.base['functions']:
        return []
    n.run()
    for t in trees.values():
        ast.fix_missing_locations(t)
    return n.log
