"""Lightweight, annotation-driven receiver typing and call resolution (no type checker exists in the sandbox).

A type is a string: a package class name ('Task', 'WBS', '_ChildrenList', 'IResource', ...), a builtin container tag
('list', 'dict', 'set', 'str', 'datetime', 'timedelta', 'int', 'float', 'bool', 'tuple', 'NoneType'), optionally with an element
type written 'list[Task]'.  None means unknown.  Everything unknown is reported, never silently assumed.
"""
from __future__ import annotations

import ast
from typing import Dict, List, Optional, Tuple

from .model import Program, Func, unmangle, walk_no_nested

# Fields whose type cannot be read off an annotation; confirmed by reading the constructors (one line of reason each).
FIELD_TYPES = {
    ('Task', '_Task__parent'): 'Task',            # assigned only from `parent: Task` parameters / None
    ('Task', '_Task__children'): 'list[Task]',    # [] in __init__, elements appended by parent.setter
    ('Task', '_Task__predecessors'): 'list[Task]',
    ('Task', '_Task__successors'): 'list[Task]',
    ('Task', '_Task__wbs'): 'WBS',
    ('WBS', '_WBS__root'): 'Task',
    ('_ImmutableTaskList', '_list'): 'list[Task]',
    ('_ChildrenList', '_ChildrenList__parent'): 'Task',
    ('_PredecessorsList', '_PredecessorsList__parent'): 'Task',
    ('_SuccessorsList', '_SuccessorsList__parent'): 'Task',
    ('_ResourceUsage', 'rows'): 'list[ResourceUsageRow]',
    ('ResourceUsageReport', '_ResourceUsageReport__rows'): 'list[ResourceUsageRow]',
    ('ResourceUsageRow', 'task'): 'Task',
    ('ResourceUsageRow', 'resource'): 'IResource',
    ('ResourceUsageRow', 'date'): 'datetime',
    ('Resource', 'calendar'): 'IWorkCalendar',
    ('TextTable', '_TextTable__rows'): 'list[_TextTableRow]',
    ('TextTable', '_TextTable__current_row'): '_TextTableRow',
    ('_TextTableRow', 'cells'): 'list[_TextTableCell]',
    ('CriticalPathCalculator', '_CriticalPathCalculator__nodes'): 'list[_PNode]',
    ('CriticalPathCalculator', '_CriticalPathCalculator__links'): 'dict[_PLink]',
    ('CriticalPathCalculator', '_CriticalPathCalculator__tasks'): 'dict[Task]',
    ('_PNode', 'forward_links'): 'list[_PLink]',
    ('_PNode', 'backward_links'): 'list[_PLink]',
    ('_PLink', 'start'): '_PNode',
    ('_PLink', 'end'): '_PNode',
    ('ForwardScheduler', '_ForwardScheduler__resources'): 'dict[IResource]',
    ('BackwardScheduler', '_BackwardScheduler__resources'): 'dict[IResource]',
    ('Schedule', 'schedule'): 'WBS',
    ('MermaidGantt', 'wbs'): 'WBS',
    ('MermaidNetwork', 'wbs'): 'WBS',
    ('DhtmlxGantt', 'wbs'): 'WBS',
}

BUILTIN_TYPES = {'list', 'dict', 'set', 'str', 'int', 'float', 'bool', 'tuple', 'datetime', 'timedelta', 'NoneType',
                 'frozenset', 'bytes'}

BUILTIN_RETURNS = {
    'list': 'list', 'sorted': 'list', 'dict': 'dict', 'set': 'set', 'str': 'str', 'int': 'int', 'float': 'float',
    'len': 'int', 'sum': 'float', 'tuple': 'tuple', 'datetime': 'datetime', 'timedelta': 'timedelta', 'repr': 'str',
    'bool': 'bool', 'abs': 'float', 'id': 'int', 'reversed': 'list', 'range': 'list[int]', 'type': 'type',
    'isinstance': 'bool', 'callable': 'bool', 'enumerate': 'list',
}


def base(t: Optional[str]) -> Optional[str]:
    if t is None:
        return None
    return t.split('[', 1)[0]


def elem(t: Optional[str]) -> Optional[str]:
    if t is None or '[' not in t:
        return None
    return t[t.index('[') + 1:-1]


def ann_type(a: Optional[ast.AST]) -> Optional[str]:
    """type from an annotation AST"""
    if a is None:
        return None
    if isinstance(a, ast.Constant) and isinstance(a.value, str):
        try:
            return ann_type(ast.parse(a.value, mode='eval').body)
        except SyntaxError:
            return None
    if isinstance(a, ast.Constant) and a.value is None:
        return 'NoneType'
    if isinstance(a, ast.Name):
        if a.id in ('List', 'Iterable', 'Sequence'):
            return 'list'
        if a.id in ('Dict',):
            return 'dict'
        if a.id in ('Set',):
            return 'set'
        if a.id in ('Any', 'Callable'):
            return None
        return a.id
    if isinstance(a, ast.Attribute):
        return a.attr
    if isinstance(a, ast.Subscript):
        head = ann_type(a.value)
        sl = a.slice
        if isinstance(a.value, ast.Name) and a.value.id == 'Optional':
            return ann_type(sl)
        if isinstance(a.value, ast.Name) and a.value.id == 'Union':
            elts = sl.elts if isinstance(sl, ast.Tuple) else [sl]
            ts = [ann_type(e) for e in elts]
            ts = [t for t in ts if t not in (None, 'NoneType')]
            # Union['Task', Iterable['Task']] and similar stay unknown
            return ts[0] if len(set(ts)) == 1 else None
        if head in ('list', 'set'):
            return f"{head}[{ann_type(sl)}]" if ann_type(sl) else head
        if head == 'dict':
            if isinstance(sl, ast.Tuple) and len(sl.elts) == 2 and ann_type(sl.elts[1]):
                return f"dict[{ann_type(sl.elts[1])}]"
            return 'dict'
        if head == 'tuple' or (isinstance(a.value, ast.Name) and a.value.id == 'Tuple'):
            return 'tuple'
        return head
    return None


class Typer:
    def __init__(self, prog: Program):
        self.prog = prog
        self._local_cache: Dict[int, Dict[str, Optional[str]]] = {}
        self._busy = set()

    # ------------------------------------------------------------ attribute types
    def attr_type(self, cls: str, attr: str) -> Optional[str]:
        for c in self.prog.mro(cls):
            if (c.name, attr) in FIELD_TYPES:
                return FIELD_TYPES[(c.name, attr)]
            g = c.getters.get(attr)
            if g is not None:
                t = ann_type(g.node.returns)
                if t:
                    return t
            # dataclass fields
            for st in c.node.body:
                if isinstance(st, ast.AnnAssign) and isinstance(st.target, ast.Name) and st.target.id == attr:
                    return ann_type(st.annotation)
            init = c.methods.get('__init__')
            if init is not None:
                for n in walk_no_nested(init.node):
                    tgt = None
                    if isinstance(n, ast.AnnAssign):
                        tgt, val, an = n.target, n.value, n.annotation
                    elif isinstance(n, ast.Assign) and len(n.targets) == 1:
                        tgt, val, an = n.targets[0], n.value, None
                    if isinstance(tgt, ast.Attribute) and isinstance(tgt.value, ast.Name) and \
                            tgt.value.id == init.self_name and tgt.attr == attr:
                        if an is not None and ann_type(an):
                            return ann_type(an)
                        t = self.expr_type(val, init)
                        if t and t != 'NoneType':
                            return t
        return None

    # ------------------------------------------------------------ locals
    def locals_of(self, f: Func) -> Dict[str, Optional[str]]:
        key = id(f.node)
        if key in self._local_cache:
            return self._local_cache[key]
        env: Dict[str, Optional[str]] = {}
        self._local_cache[key] = env
        if f.parent is not None:
            env.update(self.locals_of(f.parent))
        a = f.node.args
        allargs = a.posonlyargs + a.args + a.kwonlyargs
        for i, arg in enumerate(allargs):
            t = ann_type(arg.annotation)
            if i == 0 and f.kind in ('method', 'getter', 'setter') and f.cls:
                t = f.cls
            env[arg.arg] = t
        if a.kwarg:
            env[a.kwarg.arg] = 'dict'
        if a.vararg:
            env[a.vararg.arg] = 'tuple'
        # defaults that are None do not change the declared type
        multi = set()
        for _ in range(2):  # two rounds so that later definitions can use earlier ones
            for n in walk_no_nested(f.node, include_lambdas=False):
                if isinstance(n, ast.Assign) and len(n.targets) == 1 and isinstance(n.targets[0], ast.Name):
                    self._bind(env, multi, n.targets[0].id, self.expr_type(n.value, f, env))
                elif isinstance(n, ast.AnnAssign) and isinstance(n.target, ast.Name):
                    self._bind(env, multi, n.target.id, ann_type(n.annotation))
                elif isinstance(n, (ast.For, ast.comprehension)):
                    it = self.expr_type(n.iter, f, env)
                    self._bind_target(env, multi, n.target, it, n.iter, f)
                elif isinstance(n, ast.Call) and isinstance(n.func, ast.Attribute) and n.func.attr in ('append', 'add') \
                        and isinstance(n.func.value, ast.Name) and env.get(n.func.value.id) in ('list', 'set') and n.args:
                    et = self.expr_type(n.args[0], f, env)
                    if et and '[' not in et:
                        env[n.func.value.id] = f"{env[n.func.value.id]}[{et}]"
                elif isinstance(n, ast.AugAssign) and isinstance(n.target, ast.Name) and env.get(n.target.id) == 'list':
                    t = self.expr_type(n.value, f, env)
                    if base(t) == 'list' and elem(t):
                        env[n.target.id] = t
                elif isinstance(n, ast.With):
                    for item in n.items:
                        if isinstance(item.optional_vars, ast.Name):
                            self._bind(env, multi, item.optional_vars.id, self.expr_type(item.context_expr, f, env))
        return env

    def _bind(self, env, multi, name, t):
        if t is None or t == 'NoneType':
            env.setdefault(name, None)
            return
        old = env.get(name)
        if old is None:
            env[name] = t
        elif base(old) != base(t):
            # conflicting definitions: keep the first if it is a package class refined by a container, else unknown
            if old in ('list', 'list[Task]') and base(t) == 'list':
                env[name] = old if elem(old) else t
            else:
                multi.add(name)
                env[name] = None if name in multi and base(old) in BUILTIN_TYPES and base(t) in BUILTIN_TYPES else old

    def _bind_target(self, env, multi, target, iter_type, iter_expr, f):
        et = elem(iter_type)
        if et is None and base(iter_type) in ('_ImmutableTaskList', '_TaskList', '_ChildrenList', '_PredecessorsList',
                                             '_SuccessorsList'):
            et = 'Task'
        if isinstance(target, ast.Name):
            self._bind(env, multi, target.id, et)
        elif isinstance(target, ast.Tuple):
            # for k, v in d.items()
            if isinstance(iter_expr, ast.Call) and isinstance(iter_expr.func, ast.Attribute) and \
                    iter_expr.func.attr == 'items' and len(target.elts) == 2:
                dt = self.expr_type(iter_expr.func.value, f, env)
                if isinstance(target.elts[1], ast.Name):
                    self._bind(env, multi, target.elts[1].id, elem(dt))
            for e in target.elts:
                if isinstance(e, ast.Name):
                    env.setdefault(e.id, None)

    # ------------------------------------------------------------ expressions
    def expr_type(self, e: ast.AST, f: Func, env: Optional[dict] = None) -> Optional[str]:
        if e is None:
            return None
        if env is None:
            env = self.locals_of(f)
        if isinstance(e, ast.Constant):
            return type(e.value).__name__
        if isinstance(e, ast.JoinedStr):
            return 'str'
        if isinstance(e, (ast.List, ast.ListComp)):
            if isinstance(e, ast.ListComp):
                env2 = dict(env)
                for g in e.generators:
                    self._bind_target(env2, set(), g.target, self.expr_type(g.iter, f, env2), g.iter, f)
                et = self.expr_type(e.elt, f, env2)
            else:
                ets = {self.expr_type(x, f, env) for x in e.elts}
                et = ets.pop() if len(ets) == 1 else None
            return f"list[{et}]" if et and '[' not in et else 'list'
        if isinstance(e, ast.DictComp):
            env2 = dict(env)
            for g in e.generators:
                self._bind_target(env2, set(), g.target, self.expr_type(g.iter, f, env2), g.iter, f)
            vt = self.expr_type(e.value, f, env2)
            return f"dict[{vt}]" if vt and '[' not in vt else 'dict'
        if isinstance(e, ast.Dict):
            vts = {self.expr_type(v, f, env) for v in e.values}
            vt = vts.pop() if len(vts) == 1 else None
            return f"dict[{vt}]" if vt and '[' not in vt else 'dict'
        if isinstance(e, (ast.Set, ast.SetComp)):
            return 'set'
        if isinstance(e, ast.Tuple):
            return 'tuple'
        if isinstance(e, ast.GeneratorExp):
            return 'list'
        if isinstance(e, ast.Name):
            if e.id in env:
                return env[e.id]
            if e.id in self.prog.classes:
                return 'type:' + e.id
            return None
        if isinstance(e, ast.Attribute):
            bt = base(self.expr_type(e.value, f, env))
            if bt and bt in self.prog.classes:
                return self.attr_type(bt, e.attr)
            if bt == 'datetime' and e.attr in ('year', 'month', 'day'):
                return 'int'
            return None
        if isinstance(e, ast.Subscript):
            ct = self.expr_type(e.value, f, env)
            if isinstance(e.slice, ast.Slice):
                return ct
            if base(ct) in ('_ImmutableTaskList', '_TaskList', '_ChildrenList', '_PredecessorsList', '_SuccessorsList'):
                return 'Task'
            if base(ct) == 'WBS':
                return 'Task'
            return elem(ct)
        if isinstance(e, ast.IfExp):
            a, b = self.expr_type(e.body, f, env), self.expr_type(e.orelse, f, env)
            if a in (None, 'NoneType'):
                return b
            return a
        if isinstance(e, ast.BoolOp):
            ts = [self.expr_type(v, f, env) for v in e.values]
            ts = [t for t in ts if t not in (None, 'NoneType')]
            return ts[-1] if ts else None
        if isinstance(e, ast.BinOp):
            lt, rt = self.expr_type(e.left, f, env), self.expr_type(e.right, f, env)
            if base(lt) == 'list' or base(rt) == 'list':
                return lt if base(lt) == 'list' and elem(lt) else (rt if base(rt) == 'list' else lt)
            if base(lt) in ('_ImmutableTaskList', '_TaskList', '_ChildrenList', '_PredecessorsList', '_SuccessorsList') \
                    and isinstance(e.op, ast.Add):
                return 'list[Task]'
            if lt == 'datetime' and rt == 'timedelta':
                return 'datetime'
            if lt == 'datetime' and rt == 'datetime':
                return 'timedelta'
            if lt == 'str' or rt == 'str':
                return 'str'
            return lt if lt == rt else None
        if isinstance(e, ast.Compare) or (isinstance(e, ast.UnaryOp) and isinstance(e.op, ast.Not)):
            return 'bool'
        if isinstance(e, ast.Call):
            return self.call_type(e, f, env)
        return None

    def call_type(self, c: ast.Call, f: Func, env) -> Optional[str]:
        fn = c.func
        if isinstance(fn, ast.Name):
            if fn.id in self.prog.classes:
                return fn.id
            if fn.id in ('max', 'min') and c.args:
                ts = [self.expr_type(a, f, env) for a in c.args]
                if len(ts) == 1:
                    return elem(ts[0])
                ts = [t for t in ts if t]
                return ts[0] if ts else None
            if fn.id == 'next' and c.args:
                return elem(self.expr_type(c.args[0], f, env))
            if fn.id == 'list' and c.args:
                t = self.expr_type(c.args[0], f, env)
                if base(t) == 'list':
                    return t
                if base(t) in ('_ImmutableTaskList', '_TaskList', '_ChildrenList', '_PredecessorsList', '_SuccessorsList'):
                    return 'list[Task]'
                return 'list'
            if fn.id in ('reversed', 'sorted') and c.args:
                t = self.expr_type(c.args[0], f, env)
                if base(t) in ('_ImmutableTaskList', '_TaskList', '_ChildrenList', '_PredecessorsList', '_SuccessorsList'):
                    return 'list[Task]'
                return t if base(t) == 'list' else 'list'
            if fn.id in BUILTIN_RETURNS:
                return BUILTIN_RETURNS[fn.id]
            for tgt in self.resolve_name_call(fn.id, f):
                t = self.ret_type(tgt)
                if t:
                    return t
            return None
        if isinstance(fn, ast.Attribute):
            rt = self.expr_type(fn.value, f, env)
            b = base(rt)
            if rt and rt.startswith('type:'):
                cls = rt[5:]
                m = self.prog.find_method(cls, unmangle(fn.attr))
                if m is not None:
                    return self.ret_type(m)
                if cls == 'datetime' or fn.attr in ('now', 'today', 'strptime'):
                    return 'datetime'
            if isinstance(fn.value, ast.Name) and fn.value.id == 'datetime' and fn.attr in ('now', 'today', 'strptime'):
                return 'datetime'
            if b in self.prog.classes:
                m = self.prog.find_method(b, unmangle(fn.attr))
                if m is not None:
                    t = self.ret_type(m)
                    if t:
                        return t
                    if unmangle(fn.attr) == '__call__' or fn.attr == 'order_by':
                        return '_ImmutableTaskList'
                    return None
            if b == 'dict':
                if fn.attr in ('get', 'setdefault', 'pop'):
                    return elem(rt)
                if fn.attr == 'values':
                    return f"list[{elem(rt)}]" if elem(rt) else 'list'
                if fn.attr in ('keys', 'items'):
                    return 'list'
            if b == 'list' and fn.attr == 'copy':
                return rt
            if b == 'str':
                if fn.attr in ('replace', 'lower', 'upper', 'format', 'join', 'strip'):
                    return 'str'
                if fn.attr == 'split':
                    return 'list[str]'
            if b == 'datetime' and fn.attr == 'strftime':
                return 'str'
            if fn.attr == 'strftime':
                return 'str'
            if fn.attr == 'join':
                return 'str'
        # call of a call result e.g. self.tasks(key, **kw) handled above through attr getter returning list type
        if isinstance(fn, ast.Attribute):
            gt = self.expr_type(fn, f, env)
            if base(gt) in ('_ImmutableTaskList', '_TaskList', '_ChildrenList', '_PredecessorsList', '_SuccessorsList'):
                return '_ImmutableTaskList'
        if isinstance(fn, ast.Name):
            t = env.get(fn.id)
            if base(t) in ('_ImmutableTaskList', '_TaskList', '_ChildrenList'):
                return '_ImmutableTaskList'
        return None

    def ret_type(self, tgt: Func) -> Optional[str]:
        """declared return type, else the common inferable type of all return expressions"""
        if isinstance(tgt.node, ast.Lambda):
            return None
        t = ann_type(tgt.node.returns)
        if t:
            return t
        if tgt.qual in self._busy:
            return None
        self._busy.add(tgt.qual)
        try:
            ts = set()
            for n in walk_no_nested(tgt.node):
                if isinstance(n, ast.Return) and n.value is not None:
                    ts.add(self.expr_type(n.value, tgt))
            ts.discard('NoneType')
            if len(ts) == 1:
                return ts.pop()
            return None
        finally:
            self._busy.discard(tgt.qual)

    # ------------------------------------------------------------ call resolution
    def resolve_name_call(self, name: str, f: Func) -> List[Func]:
        # nested function in an enclosing scope
        p = f
        while p is not None:
            q = p.qual + '.' + name
            if q in self.prog.funcs:
                return [self.prog.funcs[q]]
            p = p.parent
        q = f.module.name + '.' + name
        if q in self.prog.funcs:
            return [self.prog.funcs[q]]
        if name in self.prog.classes:
            init = self.prog.find_method(name, '__init__')
            return [init] if init else []
        imp = self.prog.resolve_import(f.module, name)
        if imp and imp in self.prog.funcs:
            return [self.prog.funcs[imp]]
        return []


class CallInfo:
    __slots__ = ('node', 'targets', 'kind', 'resolved', 'receiver_type', 'name')

    def __init__(self, node, targets, kind, resolved, receiver_type=None, name=None):
        self.node = node                # the ast node (Call / Attribute / AugAssign / BinOp ...)
        self.targets: List[Func] = targets
        self.kind = kind                # call | getter | setter | operator | ctor
        self.resolved = resolved        # True: receiver type known (or name call); False: by-name over-approximation / unknown
        self.receiver_type = receiver_type
        self.name = name


LIST_CLASSES = ('_ImmutableTaskList', '_TaskList', '_ChildrenList', '_PredecessorsList', '_SuccessorsList')

BINOP_DUNDER = {ast.FloorDiv: '__floordiv__', ast.LShift: '__lshift__', ast.RShift: '__rshift__', ast.Add: '__add__',
                ast.Sub: '__sub__', ast.Mult: '__mul__', ast.Div: '__truediv__', ast.BitOr: '__or__'}


class CallGraph:
    """call edges per function, including property getter/setter and operator edges on package classes"""

    def __init__(self, prog: Program, typer: Typer):
        self.prog = prog
        self.typer = typer
        self._calls: Dict[str, List[CallInfo]] = {}
        self.unresolved: List[Tuple[str, str]] = []
        self.n_attr_calls = 0
        self.n_attr_resolved = 0

    def calls_in(self, f: Func) -> List[CallInfo]:
        if f.qual not in self._calls:
            self._calls[f.qual] = self._collect(f)
        return self._calls[f.qual]

    def calls_in_expr(self, f: Func, root: ast.AST) -> List[CallInfo]:
        ids = {id(n) for n in ast.walk(root)}
        return [c for c in self.calls_in(f) if id(c.node) in ids]

    def _collect(self, f: Func) -> List[CallInfo]:
        out: List[CallInfo] = []
        env = self.typer.locals_of(f)
        prog = self.prog
        store_attrs = set()
        for n in walk_no_nested(f.node, include_lambdas=False):
            if isinstance(n, (ast.Assign, ast.AugAssign, ast.AnnAssign)):
                tgts = n.targets if isinstance(n, ast.Assign) else [n.target]
                flat = []
                for t in tgts:
                    flat.extend(t.elts if isinstance(t, (ast.Tuple, ast.List)) else [t])
                for t in flat:
                    if isinstance(t, ast.Attribute):
                        store_attrs.add(id(t))
                        rt = base(self.typer.expr_type(t.value, f, env))
                        name = unmangle(t.attr)
                        if rt in prog.classes:
                            s = prog.find_setter(rt, name)
                            if s is not None:
                                out.append(CallInfo(t, [s], 'setter', True, rt, name))
                        elif rt is None:
                            cands = [c.setters[name] for c in prog.classes.values() if name in c.setters]
                            if cands:
                                out.append(CallInfo(t, cands, 'setter', False, None, name))
                        if isinstance(n, ast.AugAssign):
                            # x.p += y : getter, dunder, setter
                            if rt in prog.classes:
                                g = prog.find_getter(rt, name)
                                if g is not None:
                                    out.append(CallInfo(t, [g], 'getter', True, rt, name))
                                    gt = base(ann_type(g.node.returns))
                                    d = BINOP_DUNDER.get(type(n.op))
                                    if gt in prog.classes and d:
                                        m = prog.find_method(gt, d)
                                        if m is not None:
                                            out.append(CallInfo(n, [m], 'operator', True, gt, d))
        for n in walk_no_nested(f.node, include_lambdas=False):
            if isinstance(n, ast.Call):
                out.extend(self._call(n, f, env))
            elif isinstance(n, ast.Attribute) and id(n) not in store_attrs and isinstance(n.ctx, ast.Load):
                rt = base(self.typer.expr_type(n.value, f, env))
                name = unmangle(n.attr)
                if rt in prog.classes:
                    g = prog.find_getter(rt, name)
                    if g is not None:
                        out.append(CallInfo(n, [g], 'getter', True, rt, name))
                elif rt is None:
                    cands = [c.getters[name] for c in prog.classes.values() if name in c.getters]
                    if cands:
                        out.append(CallInfo(n, cands, 'getter', False, None, name))
            elif isinstance(n, ast.BinOp) and type(n.op) in BINOP_DUNDER:
                lt = base(self.typer.expr_type(n.left, f, env))
                d = BINOP_DUNDER[type(n.op)]
                if lt in prog.classes:
                    m = prog.find_method(lt, d)
                    if m is not None:
                        out.append(CallInfo(n, [m], 'operator', True, lt, d))
                elif lt is None and d in ('__floordiv__', '__lshift__', '__rshift__'):
                    cands = prog.methods_named(d)
                    if cands:
                        out.append(CallInfo(n, cands, 'operator', False, None, d))
            elif isinstance(n, ast.Subscript) and isinstance(n.ctx, ast.Load):
                lt = base(self.typer.expr_type(n.value, f, env))
                if lt in prog.classes:
                    m = prog.find_method(lt, '__getitem__')
                    if m is not None:
                        out.append(CallInfo(n, [m], 'operator', True, lt, '__getitem__'))
            elif isinstance(n, (ast.For, ast.comprehension)):
                lt = base(self.typer.expr_type(n.iter, f, env))
                if lt in prog.classes:
                    m = prog.find_method(lt, '__iter__')
                    if m is not None:
                        out.append(CallInfo(n.iter, [m], 'operator', True, lt, '__iter__'))
            elif isinstance(n, ast.Compare):
                for op, right in zip(n.ops, n.comparators):
                    if isinstance(op, (ast.In, ast.NotIn)):
                        lt = base(self.typer.expr_type(right, f, env))
                        if lt in prog.classes:
                            m = prog.find_method(lt, '__contains__') or prog.find_method(lt, '__iter__')
                            if m is not None:
                                out.append(CallInfo(right, [m], 'operator', True, lt, m.name))
        return out

    def _call(self, c: ast.Call, f: Func, env) -> List[CallInfo]:
        prog = self.prog
        fn = c.func
        if isinstance(fn, ast.Name):
            if fn.id in env and fn.id not in prog.classes and not self.typer.resolve_name_call(fn.id, f):
                t = base(env.get(fn.id))
                if t in prog.classes:
                    m = prog.find_method(t, '__call__')
                    return [CallInfo(c, [m], 'call', True, t, '__call__')] if m else []
                return [CallInfo(c, [], 'call', False, None, fn.id)]  # call of a callable parameter / local
            tg = self.typer.resolve_name_call(fn.id, f)
            kind = 'ctor' if fn.id in prog.classes else 'call'
            return [CallInfo(c, tg, kind, True, None, fn.id)]
        if isinstance(fn, ast.Attribute):
            name = unmangle(fn.attr)
            self.n_attr_calls += 1
            # super().__init__
            if isinstance(fn.value, ast.Call) and isinstance(fn.value.func, ast.Name) and fn.value.func.id == 'super' and f.cls:
                mro = prog.mro(f.cls)[1:]
                for k in mro:
                    if name in k.methods:
                        self.n_attr_resolved += 1
                        return [CallInfo(c, [k.methods[name]], 'call', True, k.name, name)]
                self.n_attr_resolved += 1
                return [CallInfo(c, [], 'call', True, 'object', name)]
            rt = self.typer.expr_type(fn.value, f, env)
            b = base(rt)
            if rt and rt.startswith('type:'):
                cls = rt[5:]
                m = prog.find_method(cls, name)
                self.n_attr_resolved += 1
                return [CallInfo(c, [m] if m else [], 'call', True, cls, name)]
            if b in prog.classes:
                self.n_attr_resolved += 1
                m = prog.find_method(b, name)
                tg = [m] if m else []
                # interface dispatch: include overrides in subclasses
                for sub in prog.subclasses(b):
                    if name in sub.methods and sub.methods[name] not in tg:
                        tg.append(sub.methods[name])
                if not tg:
                    # calling the value of a property / field (e.g. self.__setter(...), self.tasks(...))
                    g = prog.find_getter(b, name)
                    if g is not None:
                        gt = base(ann_type(g.node.returns))
                        if gt in prog.classes:
                            m2 = prog.find_method(gt, '__call__')
                            if m2:
                                return [CallInfo(c, [m2], 'call', True, gt, '__call__')]
                    return [CallInfo(c, [], 'call', False, b, name)]   # callable field
                return [CallInfo(c, tg, 'call', True, b, name)]
            if b is not None:
                self.n_attr_resolved += 1
                return [CallInfo(c, [], 'call', True, b, name)]          # builtin receiver
            # module receivers (json.dumps, csv.writer, re.search, pkg_resources.read_text, dataclasses.replace)
            if isinstance(fn.value, ast.Name) and fn.value.id in f.module.imports and fn.value.id not in env:
                self.n_attr_resolved += 1
                return [CallInfo(c, [], 'call', True, 'module:' + fn.value.id, name)]
            if isinstance(fn.value, ast.Name) and fn.value.id == 'datetime':
                self.n_attr_resolved += 1
                return [CallInfo(c, [], 'call', True, 'type:datetime', name)]
            cands = prog.methods_named(name)
            self.unresolved.append((f.qual, ast.unparse(c)[:80]))
            return [CallInfo(c, cands, 'call', False, None, name)]
        # call of a call result etc.
        t = base(self.typer.expr_type(fn, f, env))
        if t in prog.classes:
            m = prog.find_method(t, '__call__')
            if m:
                return [CallInfo(c, [m], 'call', True, t, '__call__')]
        return [CallInfo(c, [], 'call', False, None, None)]
