"""Write effects with receiver provenance, explicit raises, clock reads; interprocedural summaries by fixed point.

A write is (field, root): `field` is the (mangled) attribute written (plain store, augmented store, or in-place
mutation of a builtin container held in that attribute), `root` says whose state it is, relative to the function:
    self            reachable from the receiver of the method
    param:<name>    reachable from that parameter (elements of a parameter container count as the parameter)
    fresh           an object allocated by this call chain (constructor result, comprehension, copy) - not an effect
    unknown         anything else (module state, unresolved)
At a call site callee roots are translated into caller roots (self -> root of the receiver expression, param:p -> root
of the argument bound to p).  Writes to `fresh` never leave the function that allocated the object.
"""
from __future__ import annotations

import ast
from typing import Dict, List, Optional, Set, Tuple

from .cfg import cfg_of
from .flow import flow_of, Expander
from .model import Func, Program, unmangle, walk_no_nested, src
from .pat import attr_path
from .types import Typer, CallGraph, CallInfo, base, LIST_CLASSES

LIST_MUTATORS = {'append', 'remove', 'insert', 'clear', 'sort', 'extend', 'pop', 'reverse', '__setitem__', '__delitem__',
                 '__iadd__'}
SET_MUTATORS = {'add', 'discard', 'remove', 'clear', 'update', 'pop', 'difference_update', 'intersection_update'}
DICT_MUTATORS = {'setdefault', 'update', 'pop', 'clear', 'popitem', '__setitem__', '__delitem__'}
MUTATORS = LIST_MUTATORS | SET_MUTATORS | DICT_MUTATORS


def _instance_dict_owner(e):
    """`x` when e is `x.__dict__` or `vars(x)` (the attribute dictionary of x), else None"""
    if isinstance(e, ast.Attribute) and e.attr == '__dict__':
        return e.value
    if isinstance(e, ast.Call) and isinstance(e.func, ast.Name) and e.func.id == 'vars' and len(e.args) == 1 and not e.keywords:
        return e.args[0]
    return None

FRESH_CALLS = {'list', 'sorted', 'dict', 'set', 'tuple', 'reversed', 'str', 'int', 'float', 'len', 'sum', 'max', 'min',
               'datetime', 'timedelta', 'range', 'enumerate', 'zip', 'iter', 'next', 'id', 'type', 'bool', 'repr',
               'isinstance', 'callable', 'abs', 'round', 'frozenset'}


class Write:
    __slots__ = ('field', 'root', 'node', 'func', 'kind', 'recv', 'recv_type', 'via')

    def __init__(self, field, root, node, func, kind, recv=None, recv_type=None, via=None):
        self.field, self.root, self.node, self.func, self.kind = field, root, node, func, kind
        self.recv, self.recv_type, self.via = recv, recv_type, via

    def key(self):
        return (self.field, self.root)

    def __repr__(self):
        return f"<W {self.field}@{self.root} {self.kind} {self.func.qual}:{getattr(self.node, 'lineno', '?')}>"


class Effects:
    def __init__(self, prog: Program, typer: Typer, cg: CallGraph):
        self.prog, self.typer, self.cg = prog, typer, cg
        self._direct: Dict[str, List[Write]] = {}
        self._star: Optional[Dict[str, Set[Tuple[str, str]]]] = None
        self._star_src: Dict[str, Dict[Tuple[str, str], Tuple]] = {}
        self._raises: Dict[str, List[Tuple[ast.Raise, str]]] = {}
        self._raises_star: Optional[Dict[str, Set[str]]] = None
        self._roots_cache: Dict[Tuple[int, int], str] = {}

    # ------------------------------------------------------------------ provenance of an expression
    def container_root(self, e: ast.AST, f: Func, at=None, depth=0) -> str:
        """root of the *container object* an expression denotes (not of its elements): a list built here is fresh
        even when it holds tasks of a parameter"""
        if e is None or depth > 10:
            return 'unknown'
        fl = flow_of(f)
        if at is None:
            at = fl.node_of_expr(e)
        if isinstance(e, (ast.List, ast.ListComp, ast.Dict, ast.DictComp, ast.Set, ast.SetComp, ast.Tuple,
                          ast.GeneratorExp, ast.Constant, ast.JoinedStr)):
            return 'fresh'
        if isinstance(e, ast.BinOp):
            return 'fresh'
        if isinstance(e, ast.IfExp):
            return self._join({self.container_root(e.body, f, at, depth + 1), self.container_root(e.orelse, f, at, depth + 1)})
        if isinstance(e, ast.Call):
            fn = e.func
            if isinstance(fn, ast.Name) and (fn.id in FRESH_CALLS or fn.id in self.prog.classes):
                return 'fresh'
            if isinstance(fn, ast.Attribute) and unmangle(fn.attr) in ('copy', 'keys', 'values', 'items', 'split',
                                                                        'intersection', 'union', '__add__'):
                rt = base(self.typer.expr_type(fn.value, f))
                if rt not in self.prog.classes or unmangle(fn.attr) == '__add__':
                    return 'fresh'
            return self.root_of(e, f, at, depth + 1)
        if isinstance(e, ast.Name):
            if e.id == f.self_name and f.self_name is not None:
                return 'self'
            ds = fl.reaching(e.id, at) if at is not None else fl.defs_of(e.id)
            if not ds:
                ds = fl.defs_of(e.id)
            if not ds:
                return self.root_of(e, f, at, depth + 1)
            roots = set()
            for d in ds:
                if d.kind == 'assign' and d.value is not None:
                    roots.add(self.container_root(d.value, f, d.node, depth + 1))
                elif d.kind == 'aug':
                    # x += y keeps the container (list.__iadd__) : provenance of the earlier definitions
                    prev = [x for x in fl.reaching(e.id, d.node) if x is not d] if d.node is not None else []
                    for pd in prev:
                        if pd.kind == 'assign' and pd.value is not None:
                            roots.add(self.container_root(pd.value, f, pd.node, depth + 1))
                        elif pd.kind == 'param':
                            roots.add('param:' + e.id)
                        elif pd.kind != 'aug':
                            roots.add('unknown')
                elif d.kind == 'param':
                    if f.parent is not None and e.id not in f.params:
                        roots.add(self.root_of_name_in(e.id, f.parent))
                    else:
                        roots.add('param:' + e.id)
                else:
                    roots.add(self.root_of(e, f, at, depth + 1))
            return self._join(roots)
        return self.root_of(e, f, at, depth + 1)

    def root_of(self, e: ast.AST, f: Func, at=None, depth=0) -> str:
        """root label of the object an expression denotes (see module docstring)"""
        if e is None or depth > 10:
            return 'unknown'
        fl = flow_of(f)
        if at is None:
            at = fl.node_of_expr(e)
        if isinstance(e, ast.Name):
            if e.id == f.self_name and f.self_name is not None:
                return 'self'
            ds = fl.reaching(e.id, at) if at is not None else fl.defs_of(e.id)
            if not ds:
                ds = fl.defs_of(e.id)
            if not ds:
                # free variable of a nested function / lambda: resolve in the parent
                if f.parent is not None:
                    r = self.root_of_name_in(e.id, f.parent)
                    return r
                if e.id in self.prog.classes or e.id in f.module.imports:
                    return 'fresh' if e.id in self.prog.classes else 'unknown'
                return 'unknown'
            roots = set()
            for d in ds:
                if d.kind == 'param':
                    if f.parent is not None and e.id not in f.params:
                        roots.add(self.root_of_name_in(e.id, f.parent))
                    elif e.id == f.self_name:
                        roots.add('self')
                    else:
                        roots.add('param:' + e.id)
                elif d.kind == 'assign' and d.value is not None:
                    roots.add(self.root_of(d.value, f, d.node, depth + 1))
                elif d.kind == 'for':
                    roots.add(self.root_of(d.stmt.iter, f, d.node, depth + 1))
                elif d.kind == 'aug':
                    prev = [x for x in fl.reaching(e.id, d.node)] if d.node is not None else []
                    roots.add('fresh' if isinstance(d.stmt.value, (ast.List, ast.ListComp)) else 'unknown')
                    for pd in prev:
                        if pd.kind == 'assign' and pd.value is not None and pd is not d:
                            roots.add(self.root_of(pd.value, f, pd.node, depth + 1))
                    # x += <expr>: elements of expr join the container
                    roots.add(self.root_of(d.stmt.value, f, d.node, depth + 1))
                    roots.discard('unknown') if len(roots) > 1 else None
                elif d.kind == 'unpack':
                    roots.add(self.root_of(d.stmt.value, f, d.node, depth + 1))
                else:
                    roots.add('unknown')
            roots |= self._inserted_roots(e.id, f, depth)
            return self._join(roots)
        if isinstance(e, ast.Attribute):
            return self.root_of(e.value, f, at, depth + 1)
        if isinstance(e, ast.Subscript):
            return self.root_of(e.value, f, at, depth + 1)
        if isinstance(e, ast.Starred):
            return self.root_of(e.value, f, at, depth + 1)
        if isinstance(e, (ast.Constant, ast.JoinedStr, ast.Compare)):
            return 'fresh'
        if isinstance(e, (ast.List, ast.Tuple, ast.Set)):
            return self._join({self.root_of(x, f, at, depth + 1) for x in e.elts} | {'fresh'})
        if isinstance(e, ast.Dict):
            return self._join({self.root_of(x, f, at, depth + 1) for x in e.values if x is not None} | {'fresh'})
        if isinstance(e, (ast.ListComp, ast.SetComp, ast.GeneratorExp)):
            return self._comp_root(e, e.elt, f, at, depth)
        if isinstance(e, ast.DictComp):
            return self._comp_root(e, e.value, f, at, depth)
        if isinstance(e, ast.IfExp):
            return self._join({self.root_of(e.body, f, at, depth + 1), self.root_of(e.orelse, f, at, depth + 1)})
        if isinstance(e, ast.BoolOp):
            return self._join({self.root_of(v, f, at, depth + 1) for v in e.values})
        if isinstance(e, ast.BinOp):
            return self._join({self.root_of(e.left, f, at, depth + 1), self.root_of(e.right, f, at, depth + 1)})
        if isinstance(e, ast.UnaryOp):
            return 'fresh'
        if isinstance(e, ast.Call):
            fn = e.func
            if isinstance(fn, ast.Name):
                if fn.id in self.prog.classes:
                    return 'fresh'
                if fn.id == 'chain':
                    return self._join({self.root_of(a, f, at, depth + 1) for a in e.args} | {'fresh'})
                if fn.id in FRESH_CALLS:
                    if fn.id in ('list', 'sorted', 'reversed', 'tuple', 'set', 'next', 'iter', 'max', 'min', 'enumerate'):
                        return self._join({self.root_of(a, f, at, depth + 1) for a in e.args} | {'fresh'})
                    return 'fresh'
                tg = self.typer.resolve_name_call(fn.id, f)
                if tg:
                    return self._call_result_root(tg, e, None, f, at, depth)
                return 'unknown'
            if isinstance(fn, ast.Attribute):
                name = unmangle(fn.attr)
                # element-preserving library calls: itertools.chain(A, B), dict.fromkeys(P)
                if name in ('chain', 'from_iterable') and isinstance(fn.value, (ast.Name, ast.Attribute)) and \
                        'chain' in (name, getattr(fn.value, 'attr', ''), getattr(fn.value, 'id', '')) or \
                        (name == 'fromkeys' and isinstance(fn.value, ast.Name) and fn.value.id in ('dict', 'OrderedDict')):
                    return self._join({self.root_of(a, f, at, depth + 1) for a in e.args[:None if name != 'fromkeys' else 1]} | {'fresh'})
                if name in ('copy', 'keys', 'values', 'items', 'get', 'setdefault', 'pop', 'intersection', 'union',
                            '__add__', '__getitem__', '__getattribute__'):
                    rt = base(self.typer.expr_type(fn.value, f))
                    if rt not in self.prog.classes or name in ('__add__', '__getitem__', '__getattribute__'):
                        r = {self.root_of(fn.value, f, at, depth + 1)}
                        if name in ('setdefault', '__add__'):
                            r |= {self.root_of(a, f, at, depth + 1) for a in e.args[-1:]}
                        return self._join(r)
                if name in ('strftime', 'strptime', 'now', 'today', 'format', 'join', 'replace', 'lower', 'upper',
                            'split', 'startswith', 'endswith', 'substitute', 'dumps', 'read_text', 'search', 'weekday'):
                    return 'fresh'
                rt = self.typer.expr_type(fn.value, f)
                b = base(rt)
                if rt and rt.startswith('type:'):
                    m = self.prog.find_method(rt[5:], name)
                    return self._call_result_root([m], e, None, f, at, depth) if m else 'unknown'
                if b in self.prog.classes:
                    m = self.prog.find_method(b, name)
                    if m is not None:
                        return self._call_result_root([m], e, fn.value, f, at, depth)
                    g = self.prog.find_getter(b, name)
                    if g is not None:       # calling a list facade: tasks(key, **kw) selects elements of the list
                        return self.root_of(fn.value, f, at, depth + 1)
                return self._join({self.root_of(fn.value, f, at, depth + 1)} | {'unknown'}) if b is None else 'unknown'
            return 'unknown'
        if isinstance(e, ast.Lambda):
            return 'fresh'
        return 'unknown'

    def _inserted_roots(self, name: str, f: Func, depth: int) -> Set[str]:
        """roots of objects put into the local container `name` by in-place insertion anywhere in f"""
        key = ('ins', id(f.node), name)
        if key in self._roots_cache:
            return self._roots_cache[key]
        self._roots_cache[key] = set()
        out = set()
        for n in walk_no_nested(f.node):
            if isinstance(n, ast.Call) and isinstance(n.func, ast.Attribute) and isinstance(n.func.value, ast.Name) \
                    and n.func.value.id == name and unmangle(n.func.attr) in ('append', 'add', 'insert', 'extend',
                                                                              'setdefault', 'update', '__setitem__'):
                for a in n.args:
                    out.add(self.root_of(a, f, None, depth + 1))
            elif isinstance(n, ast.Assign):
                for t in n.targets:
                    if isinstance(t, ast.Subscript) and isinstance(t.value, ast.Name) and t.value.id == name:
                        out.add(self.root_of(n.value, f, None, depth + 1))
        out.discard('fresh')
        self._roots_cache[key] = out
        return out

    def root_of_name_in(self, name: str, f: Func) -> str:
        fl = flow_of(f)
        if name == f.self_name:
            return 'self'
        if name in f.params:
            return 'param:' + name
        ds = fl.defs_of(name)
        if not ds:
            return self.root_of_name_in(name, f.parent) if f.parent is not None else 'unknown'
        roots = set()
        for d in ds:
            if d.kind == 'assign' and d.value is not None:
                roots.add(self.root_of(d.value, f, d.node, 1))
            elif d.kind == 'for':
                roots.add(self.root_of(d.stmt.iter, f, d.node, 1))
            elif d.kind == 'param':
                roots.add('param:' + name)
            else:
                roots.add('unknown')
        return self._join(roots)

    def _comp_root(self, comp, elt, f, at, depth):
        """root of the elements produced by a comprehension: root of elt with generator targets bound to their iterables"""
        bound = {}
        for g in comp.generators:
            r = self.root_of(g.iter, f, at, depth + 1) if not self._mentions(g.iter, bound) else \
                self._root_with(g.iter, bound, f, at, depth)
            for t in ast.walk(g.target):
                if isinstance(t, ast.Name):
                    bound[t.id] = r
        return self._join({self._root_with(elt, bound, f, at, depth), 'fresh'})

    @staticmethod
    def _mentions(e, bound):
        return any(isinstance(n, ast.Name) and n.id in bound for n in ast.walk(e))

    def _root_with(self, e, bound, f, at, depth):
        if isinstance(e, ast.Name) and e.id in bound:
            return bound[e.id]
        if isinstance(e, (ast.Attribute, ast.Subscript, ast.Starred)):
            return self._root_with(e.value, bound, f, at, depth)
        if isinstance(e, ast.Call):
            fn = e.func
            if isinstance(fn, ast.Attribute):
                name = unmangle(fn.attr)
                if name == 'clone':
                    return 'fresh'
                inner = self._root_with(fn.value, bound, f, at, depth)
                rt = base(self.typer.expr_type(fn.value, f))
                if rt in self.prog.classes:
                    m = self.prog.find_method(rt, name)
                    if m is not None and self.returns_fresh(m):
                        return 'fresh'
                if name in ('get', 'copy', 'values', 'keys', 'items', '__getitem__'):
                    return inner
                return self._join({inner, 'unknown'})
            if isinstance(fn, ast.Name):
                if fn.id in self.prog.classes or fn.id in FRESH_CALLS and fn.id not in ('list', 'sorted', 'reversed',
                                                                                          'tuple', 'next', 'max', 'min'):
                    return 'fresh'
                rs = {self._root_with(a, bound, f, at, depth) for a in e.args}
                tg = self.typer.resolve_name_call(fn.id, f)
                if tg and all(self.returns_fresh(t) for t in tg):
                    return 'fresh'
                return self._join(rs | ({'unknown'} if tg or fn.id not in FRESH_CALLS else {'fresh'}))
        if isinstance(e, (ast.Tuple, ast.List)):
            return self._join({self._root_with(x, bound, f, at, depth) for x in e.elts} | {'fresh'})
        if isinstance(e, (ast.IfExp,)):
            return self._join({self._root_with(e.body, bound, f, at, depth), self._root_with(e.orelse, bound, f, at, depth)})
        if self._mentions(e, bound):
            rs = {bound[n.id] for n in ast.walk(e) if isinstance(n, ast.Name) and n.id in bound}
            return self._join(rs)
        return self.root_of(e, f, at, depth + 1)

    def returns_fresh(self, m: Func) -> bool:
        """every return of m yields an object allocated inside m (constructor call / comprehension / literal / copy)"""
        if isinstance(m.node, ast.Lambda):
            return False
        key = ('fresh', m.qual)
        if key in self._roots_cache:
            return self._roots_cache[key]
        self._roots_cache[key] = False
        rets = [n for n in walk_no_nested(m.node) if isinstance(n, ast.Return)]
        ok = bool(rets)
        for r in rets:
            if r.value is None:
                continue
            if self.root_of(r.value, m) != 'fresh':
                ok = False
        self._roots_cache[key] = ok
        return ok

    def _call_result_root(self, targets: List[Func], call: ast.Call, recv, f, at, depth) -> str:
        roots = set()
        for m in targets:
            if m is None:
                roots.add('unknown')
                continue
            if m.name == '__init__' or self.returns_fresh(m):
                roots.add('fresh')
                continue
            # result reachable from receiver / arguments
            rs = set()
            if recv is not None:
                rs.add(self.root_of(recv, f, at, depth + 1))
            for a in call.args:
                rs.add(self.root_of(a, f, at, depth + 1))
            rs.discard('fresh')
            roots |= rs or {'unknown'}
        return self._join(roots)

    @staticmethod
    def _join(roots: Set[str]) -> str:
        flat = set()
        for r in roots:
            if r and r.startswith('mixed:'):
                flat.update(r[6:].split(','))
            elif r:
                flat.add(r)
        roots = flat
        if not roots:
            return 'unknown'
        if len(roots) == 1:
            return next(iter(roots))
        non_fresh = roots - {'fresh'}
        if len(non_fresh) == 1:
            return next(iter(non_fresh)) if True else 'fresh'
        if 'unknown' in non_fresh and len(non_fresh) == 2:
            # a definite root joined with unknown stays the definite root *and* unknown: report as mixed
            return 'mixed:' + ','.join(sorted(non_fresh))
        return 'mixed:' + ','.join(sorted(non_fresh))

    # ------------------------------------------------------------------ direct writes
    def direct_writes(self, f: Func) -> List[Write]:
        if f.qual in self._direct:
            return self._direct[f.qual]
        out: List[Write] = []
        self._direct[f.qual] = out
        if isinstance(f.node, ast.Lambda):
            body_root = f.node
        else:
            body_root = f.node
        for n in walk_no_nested(body_root):
            if isinstance(n, (ast.Assign, ast.AugAssign, ast.AnnAssign, ast.Delete)):
                if isinstance(n, ast.Assign):
                    tgts = n.targets
                elif isinstance(n, ast.Delete):
                    tgts = n.targets
                else:
                    tgts = [n.target]
                flat = []
                for t in tgts:
                    flat.extend(_flat(t))
                for t in flat:
                    if isinstance(t, ast.Attribute):
                        rt = self.typer.expr_type(t.value, f)
                        # property setters are calls, not raw writes
                        if base(rt) in self.prog.classes and self.prog.find_setter(base(rt), unmangle(t.attr)):
                            continue
                        out.append(Write(t.attr, self.root_of(t.value, f), n, f, 'store', t.value, rt))
                    elif isinstance(t, ast.Subscript):
                        owner = _instance_dict_owner(t.value)
                        if owner is not None:
                            # `x.__dict__[k] = v` / `vars(x)[k] = v` (also `del`): an attribute store that bypasses every setter
                            key = t.slice
                            fld = key.value if isinstance(key, ast.Constant) and isinstance(key.value, str) else '<dynamic>'
                            out.append(Write(fld, self.root_of(owner, f), n, f, 'setattr', owner, self.typer.expr_type(owner, f)))
                            continue
                        w = self._container_write(t.value, n, f, 'subscript-store')
                        if w:
                            out.append(w)
            elif isinstance(n, ast.Call) and isinstance(n.func, ast.Attribute):
                name = unmangle(n.func.attr)
                owner = _instance_dict_owner(n.func.value)
                if owner is not None and name in DICT_MUTATORS:
                    # `x.__dict__.update(..)`, `vars(x).pop(k)`, `x.__dict__.setdefault(k, v)` ..: attribute stores by name
                    key = n.args[0] if n.args and name in ('setdefault', 'pop', '__setitem__', '__delitem__') else None
                    flds = [key.value] if isinstance(key, ast.Constant) and isinstance(key.value, str) else ['<dynamic>']
                    if name == 'update' and len(n.args) <= 1 and all(k.arg is not None for k in n.keywords) and \
                            (not n.args or (isinstance(n.args[0], ast.Dict) and all(
                                isinstance(k, ast.Constant) and isinstance(k.value, str) for k in n.args[0].keys))) and \
                            (n.args or n.keywords):
                        # update({'a': ..}, b=..): the names are in the text
                        flds = [k.value for k in (n.args[0].keys if n.args else [])] + [k.arg for k in n.keywords]
                    for fld in flds:
                        out.append(Write(fld, self.root_of(owner, f), n, f, 'setattr', owner, self.typer.expr_type(owner, f)))
                    continue
                if name in MUTATORS:
                    rt = base(self.typer.expr_type(n.func.value, f))
                    if rt in self.prog.classes:
                        continue    # a package method, handled through the call graph
                    w = self._container_write(n.func.value, n, f, 'mutate:' + name)
                    if w:
                        out.append(w)
                elif name in ('__setattr__', '__delattr__'):
                    key = n.args[0] if n.args else None
                    fld = key.value if isinstance(key, ast.Constant) else '<dynamic>'
                    recv = n.func.value
                    if isinstance(recv, ast.Name) and (recv.id == 'object' or recv.id in self.prog.classes) and len(n.args) >= 2:
                        # unbound form `object.__setattr__(x, name, value)` / `Task.__setattr__(x, name, value)`
                        recv, key = n.args[0], n.args[1]
                        fld = key.value if isinstance(key, ast.Constant) else '<dynamic>'
                    if isinstance(recv, ast.Call) and isinstance(recv.func, ast.Name) and recv.func.id == 'super':
                        out.append(Write(fld, 'self', n, f, 'setattr', None, f.cls))
                    else:
                        out.append(Write(fld, self.root_of(recv, f), n, f, 'setattr', recv, self.typer.expr_type(recv, f)))
            elif isinstance(n, ast.Call) and isinstance(n.func, ast.Name) and n.func.id in ('setattr', 'delattr') and n.args:
                key = n.args[1] if len(n.args) > 1 else None
                fld = key.value if isinstance(key, ast.Constant) else '<dynamic>'
                out.append(Write(fld, self.root_of(n.args[0], f), n, f, 'setattr', n.args[0], self.typer.expr_type(n.args[0], f)))
        return out

    def _container_write(self, recv: ast.AST, node, f: Func, kind: str) -> Optional[Write]:
        """in-place mutation of the builtin container denoted by recv: which field holds it?"""
        ex = Expander(self.prog, f, self.typer, inline=False)
        e = ex.expand(recv, flow_of(f).node_of_expr(recv) or None) if flow_of(f).node_of_expr(recv) is not None else recv
        root = self.container_root(recv, f)
        if root == 'fresh':
            return None
        fld = None
        cur = e
        while isinstance(cur, (ast.Subscript,)):
            cur = cur.value
        if isinstance(cur, ast.Call) and isinstance(cur.func, ast.Attribute) and \
                unmangle(cur.func.attr) in ('setdefault', 'get', '__getitem__'):
            inner = cur.func.value
            while isinstance(inner, ast.Subscript):
                inner = inner.value
            if isinstance(inner, ast.Attribute):
                fld = inner.attr
                root = self.root_of(inner.value, f)
            else:
                root = self.root_of(inner, f)
        elif isinstance(cur, ast.Attribute):
            fld = cur.attr
            root = self.root_of(cur.value, f)
            rt = self.typer.expr_type(cur.value, f)
            return Write(fld, root, node, f, kind, cur.value, rt)
        if fld is None:
            if root == 'fresh':
                return None          # local list / dict
            fld = '<container>'
        return Write(fld, root, node, f, kind, recv, None)

    # ------------------------------------------------------------------ interprocedural summary
    def _arg_binding(self, ci: CallInfo, callee: Func, f: Func) -> Dict[str, ast.AST]:
        """callee parameter name -> caller expression"""
        n = ci.node
        params = list(callee.params)
        bind: Dict[str, ast.AST] = {}
        recv = None
        args: List[ast.AST] = []
        kws: Dict[str, ast.AST] = {}
        if ci.kind == 'setter':
            # node is the target Attribute; value is the rhs of the enclosing assignment (unknown here)
            recv = n.value
            val = getattr(n, '_rhs', None)
            args = [val] if val is not None else []
        elif ci.kind == 'getter':
            recv = n.value
        elif ci.kind == 'operator':
            if isinstance(n, ast.BinOp):
                recv, args = n.left, [n.right]
            elif isinstance(n, ast.AugAssign):
                recv, args = n.target, [n.value]
            elif isinstance(n, ast.Subscript):
                recv, args = n.value, [n.slice]
            else:
                recv = n
        elif isinstance(n, ast.Call):
            if isinstance(n.func, ast.Attribute) and callee.kind in ('method',) and ci.kind != 'ctor':
                recv = n.func.value
            args = list(n.args)
            kws = {k.arg: k.value for k in n.keywords if k.arg}
        if isinstance(recv, ast.Call) and isinstance(recv.func, ast.Name) and recv.func.id == 'super' and f.self_name:
            recv = ast.Name(id=f.self_name, ctx=ast.Load())
            recv._synthetic_self = True
        has_self = callee.kind in ('method', 'getter', 'setter')
        if has_self and params:
            if ci.kind == 'ctor' or (isinstance(n, ast.Call) and isinstance(n.func, ast.Name) and callee.name == '__init__'):
                bind[params[0]] = None       # fresh
            elif recv is not None:
                bind[params[0]] = recv
            params = params[1:]
        for p, a in zip(params, args):
            if a is not None and not isinstance(a, ast.Starred):
                bind[p] = a
        for k, v in kws.items():
            if k in callee.params:
                bind[k] = v
        return bind

    def _translate(self, root: str, ci: CallInfo, callee: Func, f: Func, bind, container: bool = False) -> str:
        if root in ('fresh',):
            return 'fresh'
        if root.startswith('mixed:'):
            parts = root[6:].split(',')
            return self._join({self._translate(p, ci, callee, f, bind, container) for p in parts})
        if container and root.startswith('param:') and root[6:] in bind and bind[root[6:]] is not None:
            return self.container_root(bind[root[6:]], f)
        if root == 'self':
            if not callee.params:
                return 'unknown'
            p0 = callee.params[0]
            if p0 in bind:
                e = bind[p0]
                return 'fresh' if e is None else self.root_of(e, f)
            return 'unknown'
        if root.startswith('param:'):
            p = root[6:]
            if p in bind:
                e = bind[p]
                return 'fresh' if e is None else self.root_of(e, f)
            # parameter not passed (default) -> value created by the default: fresh-ish (None / constant)
            if p in callee.params:
                return 'fresh'
            return 'unknown'
        return root

    def call_writes(self, f: Func, ci: CallInfo) -> Set[Tuple[str, str]]:
        """writes of the callees of one call site, translated into the caller's roots (fresh ones dropped)"""
        out = set()
        for callee in ci.targets:
            if callee is None:
                continue
            bind = self._arg_binding(ci, callee, f)
            for (fld, root) in self.writes_star(callee):
                r2 = self._translate(root, ci, callee, f, bind, container=(fld == '<container>'))
                if r2 != 'fresh':
                    out.add((fld, r2))
        return out

    def writes_star(self, f: Func) -> Set[Tuple[str, str]]:
        if self._star is None:
            self._compute_star()
        return self._star.get(f.qual, set())

    def write_origin(self, f: Func, key: Tuple[str, str]):
        """(Write | (CallInfo, callee qual)) explaining why key is in writes*(f)"""
        if self._star is None:
            self._compute_star()
        return self._star_src.get(f.qual, {}).get(key)

    def _annotate_setter_rhs(self, f: Func):
        for n in walk_no_nested(f.node):
            if isinstance(n, (ast.Assign, ast.AugAssign, ast.AnnAssign)):
                tg = n.targets if isinstance(n, ast.Assign) else [n.target]
                for t in tg:
                    for x in _flat(t):
                        if isinstance(x, ast.Attribute):
                            x._rhs = n.value if not isinstance(n, ast.AugAssign) else n.value

    def _compute_star(self):
        funcs = list(self.prog.all_funcs())
        star: Dict[str, Set[Tuple[str, str]]] = {}
        srcs: Dict[str, Dict] = {}
        for f in funcs:
            self._annotate_setter_rhs(f)
            s = set()
            srcs[f.qual] = {}
            for w in self.direct_writes(f):
                if w.root == 'fresh':
                    continue
                s.add(w.key())
                srcs[f.qual].setdefault(w.key(), w)
            star[f.qual] = s
        changed = True
        rounds = 0
        while changed and rounds < 30:
            changed = False
            rounds += 1
            for f in funcs:
                cur = star[f.qual]
                for ci in self.cg.calls_in(f):
                    for callee in ci.targets:
                        if callee is None:
                            continue
                        bind = None
                        for (fld, root) in list(star.get(callee.qual, ())):
                            if bind is None:
                                bind = self._arg_binding(ci, callee, f)
                            r2 = self._translate(root, ci, callee, f, bind, container=(fld == '<container>'))
                            if r2 == 'fresh':
                                continue
                            k = (fld, r2)
                            if k not in cur:
                                cur.add(k)
                                srcs[f.qual].setdefault(k, (ci, callee.qual, (fld, root)))
                                changed = True
                # nested functions / lambdas defined here and (possibly) called here: their effects are ours,
                # with their free variables resolved in this scope (roots of nested funcs are already relative
                # to the outermost parameters through root_of_name_in)
                for g in funcs:
                    if g.parent is f:
                        for k in star[g.qual]:
                            fld, root = k
                            if root.startswith('param:') and root[6:] in g.params:
                                continue   # bound at the nested call site, translated there
                            if k not in cur:
                                cur.add(k)
                                srcs[f.qual].setdefault(k, ('nested', g.qual, k))
                                changed = True
        self._star = star
        self._star_src = srcs

    def explain(self, f: Func, key, depth=0) -> List[str]:
        """call chain from f to the direct write responsible for key"""
        out = []
        cur_f, cur_k = f, key
        for _ in range(12):
            o = self.write_origin(cur_f, cur_k)
            if o is None:
                break
            if isinstance(o, Write):
                out.append(f"{o.func.loc(o.node)} {o.func.qual}: {o.kind} of {unmangle(o.field)} [{src(o.node)[:70]}]")
                break
            if o[0] == 'nested':
                out.append(f"nested {o[1]}")
                cur_f, cur_k = self.prog.funcs[o[1]], o[2]
                continue
            ci, callee, k2 = o
            out.append(f"{cur_f.loc(ci.node)} {cur_f.qual} -> {callee}")
            cur_f, cur_k = self.prog.funcs[callee], k2
        return out

    # ------------------------------------------------------------------ raises
    def direct_raises(self, f: Func) -> List[Tuple[ast.Raise, str]]:
        if f.qual not in self._raises:
            out = []
            for n in walk_no_nested(f.node):
                if isinstance(n, ast.Raise):
                    out.append((n, exc_name(n)))
            self._raises[f.qual] = out
        return self._raises[f.qual]

    def raises_star(self, f: Func) -> Set[str]:
        if self._raises_star is None:
            funcs = list(self.prog.all_funcs())
            rs = {g.qual: {name for _, name in self.direct_raises(g)} for g in funcs}
            changed = True
            while changed:
                changed = False
                for g in funcs:
                    cur = rs[g.qual]
                    for ci in self.cg.calls_in(g):
                        for callee in ci.targets:
                            if callee is None:
                                continue
                            new = rs.get(callee.qual, set()) - cur
                            if new:
                                cur |= new
                                changed = True
                    for h in funcs:
                        if h.parent is g and rs[h.qual] - cur:
                            cur |= rs[h.qual]
                            changed = True
            self._raises_star = rs
        return self._raises_star.get(f.qual, set())

    # ------------------------------------------------------------------ reachability
    def reach(self, roots: List[Func], resolved_only: bool = False) -> List[Func]:
        seen, todo, out = set(), list(roots), []
        while todo:
            f = todo.pop()
            if f.qual in seen:
                continue
            seen.add(f.qual)
            out.append(f)
            for ci in self.cg.calls_in(f):
                if resolved_only and not ci.resolved:
                    continue
                for t in ci.targets:
                    if t is not None and t.qual not in seen:
                        todo.append(t)
            for g in self.prog.all_funcs():
                if g.parent is f and g.qual not in seen:
                    todo.append(g)
        return out


def _flat(t):
    if isinstance(t, (ast.Tuple, ast.List)):
        out = []
        for e in t.elts:
            out.extend(_flat(e))
        return out
    if isinstance(t, ast.Starred):
        return _flat(t.value)
    return [t]


def exc_name(r: ast.Raise) -> str:
    e = r.exc
    if e is None:
        return '<reraise>'
    if isinstance(e, ast.Call):
        e = e.func
    if isinstance(e, ast.Name):
        return e.id
    if isinstance(e, ast.Attribute):
        return e.attr
    return '<expr>'
