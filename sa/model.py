"""Program model of /repo/src/pjplan built from source text only (ast), never by importing pjplan.

* every module under src/pjplan is parsed on every run (no cache);
* private names are mangled in place (`self.__x` inside class C -> `_C__x`), exactly as the compiler does, so
  that rules see one spelling of a field no matter through which object it is accessed;
* functions get stable qualified names used as anchors:  task.Task.parent.setter, schedule.ForwardScheduler.__forward_pass,
  task.Task.__get_all_children.get_children (nested), csv_io.__parse_date (module level, not mangled);
* a missing anchor raises AnchorMissing -> the run ends as ANALYSIS-ERROR (exit 2), never as a silent pass.
"""
from __future__ import annotations

import ast
import os
from dataclasses import dataclass, field
from typing import Dict, List, Optional, Iterable, Tuple

import re

_MANGLED = re.compile(r'^_(?!_)(\w*?[A-Za-z0-9])__(?!_)(\w+)$')
REPO = os.environ.get('PJPLAN_REPO', '/repo')
PKG_REL = 'src/pjplan'


class AnalysisError(Exception):
    """The analysis cannot be carried out (anchor vanished, floor not met, module does not parse)."""


class AnchorMissing(AnalysisError):
    pass


def mangle(cls: Optional[str], name: str) -> str:
    if cls is None or not name.startswith('__') or name.endswith('__') or '.' in name:
        return name
    stripped = cls.lstrip('_')
    if not stripped:
        return name
    return '_' + stripped + name


def unmangle(name: str) -> str:
    """_Task__parent -> __parent (best effort, for printing)"""
    m = _MANGLED.match(name)
    if m and not name.endswith('__'):
        return '__' + m.group(2)
    return name


@dataclass
class Func:
    qual: str
    name: str                 # def name as written (unmangled)
    node: ast.AST             # FunctionDef / Lambda
    module: 'Module'
    cls: Optional[str]        # innermost enclosing class name
    kind: str                 # function | method | getter | setter | static | classmethod | nested | lambda
    parent: Optional['Func'] = None
    prop: Optional[str] = None   # property name for getter/setter

    @property
    def params(self) -> List[str]:
        a = self.node.args
        return [x.arg for x in a.posonlyargs + a.args] + ([a.vararg.arg] if a.vararg else []) + \
               [x.arg for x in a.kwonlyargs] + ([a.kwarg.arg] if a.kwarg else [])

    @property
    def self_name(self) -> Optional[str]:
        if self.kind in ('method', 'getter', 'setter') and self.params:
            return self.params[0]
        if self.kind in ('nested', 'lambda') and self.parent is not None:
            return self.parent.self_name
        return None

    @property
    def body(self) -> List[ast.stmt]:
        return self.node.body if isinstance(self.node.body, list) else [ast.Return(value=self.node.body)]

    def loc(self, node: Optional[ast.AST] = None) -> str:
        n = node if node is not None else self.node
        return f"{self.module.rel}:{getattr(n, 'lineno', '?')}"

    def __hash__(self):
        return hash(self.qual)

    def __eq__(self, other):
        return isinstance(other, Func) and other.qual == self.qual

    def __repr__(self):
        return f"<Func {self.qual}>"


@dataclass
class ClassInfo:
    name: str
    qual: str
    node: ast.ClassDef
    module: 'Module'
    bases: List[str]
    methods: Dict[str, Func] = field(default_factory=dict)       # plain/static methods by written name
    getters: Dict[str, Func] = field(default_factory=dict)
    setters: Dict[str, Func] = field(default_factory=dict)
    dataclass_frozen: Optional[bool] = None


@dataclass
class Module:
    name: str          # task, wbs, alg.critical_path, io.csv_io ...
    path: str
    rel: str           # src/pjplan/task.py
    src: str
    tree: ast.Module
    imports: Dict[str, str] = field(default_factory=dict)   # local name -> dotted origin


class _Mangler(ast.NodeVisitor):
    """In-place private name mangling inside class bodies (Attribute.attr and Name.id)."""

    def __init__(self):
        self.cls: List[str] = []

    def visit_ClassDef(self, node):
        for d in node.decorator_list + node.bases:
            self.visit(d)
        self.cls.append(node.name)
        for s in node.body:
            self.visit(s)
        self.cls.pop()

    def visit_Attribute(self, node):
        if self.cls:
            node.attr = mangle(self.cls[-1], node.attr)
        self.generic_visit(node)

    def visit_Name(self, node):
        if self.cls:
            node.id = mangle(self.cls[-1], node.id)

    def visit_keyword(self, node):
        self.generic_visit(node)


class Program:
    def __init__(self, repo: str = None, overrides: Dict[str, str] = None, normalise: bool = True):
        """overrides: rel path -> replacement source text (used by the thorough tier's in-memory break synthesis)."""
        self.repo = repo or REPO
        self.pkg = os.path.join(self.repo, PKG_REL)
        self.modules: Dict[str, Module] = {}
        self.funcs: Dict[str, Func] = {}
        self.classes: Dict[str, ClassInfo] = {}      # by bare class name (unique in this package)
        self.texts: Dict[str, str] = {}              # non python files (templates)
        self._by_node: Dict[int, Func] = {}
        overrides = overrides or {}
        if not os.path.isdir(self.pkg):
            raise AnalysisError(f"package directory {self.pkg} not found")
        for dirpath, dirnames, filenames in os.walk(self.pkg):
            dirnames[:] = sorted(d for d in dirnames if d != '__pycache__')
            for fn in sorted(filenames):
                path = os.path.join(dirpath, fn)
                rel = os.path.relpath(path, self.repo)
                if fn.endswith('.py'):
                    src = overrides.get(rel)
                    if src is None:
                        with open(path, encoding='utf-8') as f:
                            src = f.read()
                    try:
                        tree = ast.parse(src, filename=rel)
                    except SyntaxError as e:
                        raise AnalysisError(f"{rel} does not parse: {e}")
                    modname = os.path.relpath(path, self.pkg)[:-3].replace(os.sep, '.')
                    if modname.endswith('__init__'):
                        modname = modname[:-9] or '__init__'
                    m = Module(modname, path, rel, src, tree)
                    self.modules[modname] = m
                elif fn.endswith('.html'):
                    txt = overrides.get(rel)
                    if txt is None:
                        with open(path, encoding='utf-8') as f:
                            txt = f.read()
                    self.texts[rel] = txt
        self.normalisation_log: List[str] = []
        if normalise and os.environ.get('PJPLAN_NO_NORMALISE') != '1':
            from . import normalize
            try:
                self.normalisation_log = normalize.apply({k: v.tree for k, v in self.modules.items()})
            except RecursionError:
                self.normalisation_log = ['normalisation aborted (recursion)']
        for m in self.modules.values():
            _Mangler().visit(m.tree)
        for m in self.modules.values():
            self._index_module(m)
        self.digest = self._digest()

    # ------------------------------------------------------------------ indexing
    def _digest(self) -> str:
        import hashlib
        h = hashlib.sha256()
        for k in sorted(self.modules):
            h.update(self.modules[k].src.encode())
        for k in sorted(self.texts):
            h.update(self.texts[k].encode())
        return h.hexdigest()[:16]

    def _index_module(self, m: Module):
        for st in m.tree.body:
            if isinstance(st, ast.ImportFrom) and st.module:
                for a in st.names:
                    m.imports[a.asname or a.name] = st.module + '.' + a.name
            elif isinstance(st, ast.Import):
                for a in st.names:
                    m.imports[a.asname or a.name] = a.name
        self._index_body(m, m.tree.body, prefix=m.name, cls=None, parent=None)

    def _decorator_kind(self, fd) -> Tuple[str, Optional[str]]:
        for d in fd.decorator_list:
            if isinstance(d, ast.Name) and d.id == 'property':
                return 'getter', fd.name
            if isinstance(d, ast.Attribute) and d.attr == 'setter' and isinstance(d.value, ast.Name):
                return 'setter', d.value.id
            if isinstance(d, ast.Name) and d.id == 'staticmethod':
                return 'static', None
            if isinstance(d, ast.Name) and d.id == 'classmethod':
                return 'classmethod', None
        return 'method', None

    def _index_body(self, m: Module, body, prefix: str, cls: Optional[str], parent: Optional[Func]):
        for st in body:
            if isinstance(st, ast.ClassDef):
                bases = []
                for b in st.bases:
                    if isinstance(b, ast.Name):
                        bases.append(b.id)
                    elif isinstance(b, ast.Attribute):
                        bases.append(b.attr)
                ci = ClassInfo(st.name, prefix + '.' + st.name, st, m, bases)
                for d in st.decorator_list:
                    if isinstance(d, ast.Call) and getattr(d.func, 'id', getattr(d.func, 'attr', '')) == 'dataclass':
                        ci.dataclass_frozen = any(k.arg == 'frozen' and getattr(k.value, 'value', False) for k in d.keywords)
                    elif getattr(d, 'id', getattr(d, 'attr', '')) == 'dataclass':
                        ci.dataclass_frozen = False
                self.classes[st.name] = ci
                self._index_body(m, st.body, prefix + '.' + st.name, st.name, None)
            elif isinstance(st, (ast.FunctionDef, ast.AsyncFunctionDef)):
                written = unmangle(st.name) if cls and st.name.startswith('_' + cls.lstrip('_') + '__') else st.name
                if parent is not None:
                    kind, prop = 'nested', None
                elif cls is not None:
                    kind, prop = self._decorator_kind(st)
                else:
                    kind, prop = 'function', None
                qual = prefix + '.' + written + ('.setter' if kind == 'setter' else '')
                f = Func(qual, written, st, m, cls, kind, parent, prop)
                self.funcs[qual] = f
                self._by_node[id(st)] = f
                if cls is not None and parent is None:
                    ci = self.classes[cls]
                    if kind == 'getter':
                        ci.getters[written] = f
                    elif kind == 'setter':
                        ci.setters[prop] = f
                    else:
                        ci.methods[written] = f
                self._index_nested(m, st, prefix + '.' + written, cls, f)
            elif isinstance(st, (ast.If, ast.Try, ast.With, ast.For, ast.While)):
                for fld in ('body', 'orelse', 'finalbody'):
                    self._index_body(m, getattr(st, fld, []) or [], prefix, cls, parent)
                for h in getattr(st, 'handlers', []) or []:
                    self._index_body(m, h.body, prefix, cls, parent)

    def _index_nested(self, m: Module, fd, prefix: str, cls: Optional[str], parent: Func):
        # nested defs and lambdas anywhere inside fd (but not inside deeper defs: recursion handles them)
        lam_no = [0]

        def walk(node):
            for ch in ast.iter_child_nodes(node):
                if isinstance(ch, (ast.FunctionDef, ast.AsyncFunctionDef)):
                    qual = prefix + '.' + ch.name
                    f = Func(qual, ch.name, ch, m, cls, 'nested', parent)
                    self.funcs[qual] = f
                    self._by_node[id(ch)] = f
                    self._index_nested(m, ch, qual, cls, f)
                elif isinstance(ch, ast.Lambda):
                    lam_no[0] += 1
                    qual = f"{prefix}.<lambda{lam_no[0]}>"
                    f = Func(qual, '<lambda>', ch, m, cls, 'lambda', parent)
                    self.funcs[qual] = f
                    self._by_node[id(ch)] = f
                    walk(ch)
                elif isinstance(ch, ast.ClassDef):
                    continue
                else:
                    walk(ch)
        walk(fd)

    # ------------------------------------------------------------------ lookup
    def func(self, qual: str) -> Func:
        f = self.funcs.get(qual)
        if f is None:
            raise AnchorMissing(f"anchor function {qual} not found in {self.pkg}")
        return f

    def has_func(self, qual: str) -> bool:
        return qual in self.funcs

    def cls(self, name: str) -> ClassInfo:
        c = self.classes.get(name)
        if c is None:
            raise AnchorMissing(f"anchor class {name} not found")
        return c

    def module(self, name: str) -> Module:
        m = self.modules.get(name)
        if m is None:
            raise AnchorMissing(f"module {name} not found")
        return m

    def func_of_node(self, node) -> Optional[Func]:
        return self._by_node.get(id(node))

    def mro(self, cls: str) -> List[ClassInfo]:
        out, seen, todo = [], set(), [cls]
        while todo:
            c = todo.pop(0)
            if c in seen or c not in self.classes:
                continue
            seen.add(c)
            out.append(self.classes[c])
            todo.extend(self.classes[c].bases)
        return out

    def subclasses(self, cls: str) -> List[ClassInfo]:
        return [c for c in self.classes.values() if any(b.name == cls for b in self.mro(c.name)[1:])]

    def find_method(self, cls: str, name: str) -> Optional[Func]:
        for c in self.mro(cls):
            if name in c.methods:
                return c.methods[name]
        return None

    def find_getter(self, cls: str, name: str) -> Optional[Func]:
        for c in self.mro(cls):
            if name in c.getters:
                return c.getters[name]
        return None

    def find_setter(self, cls: str, name: str) -> Optional[Func]:
        for c in self.mro(cls):
            if name in c.setters:
                return c.setters[name]
        return None

    def methods_named(self, name: str) -> List[Func]:
        return [c.methods[name] for c in self.classes.values() if name in c.methods]

    def all_funcs(self) -> Iterable[Func]:
        return self.funcs.values()

    def module_func(self, module: str, name: str) -> Optional[Func]:
        return self.funcs.get(module + '.' + name)

    def resolve_import(self, m: Module, local: str) -> Optional[str]:
        """local name -> 'module.qual' inside the package if it is imported from the package"""
        origin = m.imports.get(local)
        if origin is None or not origin.startswith('pjplan'):
            return None
        parts = origin.split('.')
        name = parts[-1]
        # find definition anywhere in the package (re-exports through __init__ are followed by name)
        for mod in self.modules.values():
            q = mod.name + '.' + name
            if q in self.funcs and self.funcs[q].kind == 'function':
                return q
        if name in self.classes:
            return self.classes[name].qual
        return None


def walk_no_nested(node: ast.AST, include_lambdas: bool = False):
    """ast.walk that does not descend into nested function/class definitions (and lambdas unless asked)."""
    todo = [node]
    first = True
    while todo:
        n = todo.pop()
        if not first and isinstance(n, (ast.FunctionDef, ast.AsyncFunctionDef, ast.ClassDef)):
            continue
        if not first and isinstance(n, ast.Lambda) and not include_lambdas:
            continue
        first = False
        yield n
        todo.extend(reversed(list(ast.iter_child_nodes(n))))


def src(node: ast.AST) -> str:
    try:
        return ast.unparse(node)
    except Exception:
        return ast.dump(node)
