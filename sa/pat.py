"""Tiny AST pattern matcher with metavariables.

    m = match("max($*args)", node)              -> {'args': [expr, ...]} or None
    m = match("$r.get_available_units($d, $t) - $x", node)
    $name   matches one expression (bound consistently: a second occurrence must be structurally equal)
    $*name  matches the rest of an argument / element list
    $_      matches anything, never bound
Contexts (Load/Store) and source positions are ignored.
"""
from __future__ import annotations

import ast
import re
from typing import Dict, List, Optional, Union

_MV = '__MV_'
_MVS = '__MVS_'
_CACHE: Dict[str, ast.AST] = {}


def dump(n: ast.AST) -> str:
    return ast.dump(n, annotate_fields=False, include_attributes=False)


def same(a: ast.AST, b: ast.AST) -> bool:
    return _strip_ctx(dump(a)) == _strip_ctx(dump(b))


def _strip_ctx(s: str) -> str:
    return s.replace('Store()', 'Load()').replace('Del()', 'Load()')


def parse_pattern(p: str) -> ast.AST:
    if p not in _CACHE:
        q = re.sub(r'\$\*(\w+)', _MVS + r'\1', p)
        q = re.sub(r'\$(\w+)', _MV + r'\1', q)
        try:
            tree = ast.parse(q, mode='eval').body
        except SyntaxError as ex:
            # a rule author's mistake (e.g. a statement used as an expression pattern) is an analysis error of the
            # obligation that uses it, never a traceback of the whole check
            from .model import AnalysisError
            raise AnalysisError(f"pattern `{p}` is not an expression: {ex.msg}")
        _CACHE[p] = tree
    return _CACHE[p]


class Binds(dict):
    """match result: always truthy, even without metavariables"""

    def __bool__(self):
        return True


def match(pattern: Union[str, ast.AST], node: ast.AST, binds: Optional[dict] = None) -> Optional[dict]:
    pat = parse_pattern(pattern) if isinstance(pattern, str) else pattern
    b = Binds(binds or {})
    return b if _m(pat, node, b) else None


def _mv_name(n) -> Optional[str]:
    if isinstance(n, ast.Name) and n.id.startswith(_MV):
        return n.id[len(_MV):]
    return None


def _mvs_name(n) -> Optional[str]:
    if isinstance(n, ast.Name) and n.id.startswith(_MVS):
        return n.id[len(_MVS):]
    if isinstance(n, ast.Starred):
        return _mvs_name(n.value)
    return None


def _m(p, n, b) -> bool:
    name = _mv_name(p)
    if name is not None:
        if not isinstance(n, ast.AST):
            return False
        if name == '_':
            return True
        if name in b:
            return isinstance(b[name], ast.AST) and same(b[name], n)
        b[name] = n
        return True
    if isinstance(p, ast.Attribute) and p.attr.startswith(_MV):
        # $x.$attr style not supported; treat attribute metavariable as wildcard on the attribute name
        if not isinstance(n, ast.Attribute):
            return False
        key = p.attr[len(_MV):]
        if key != '_':
            if key in b and b[key] != n.attr:
                return False
            b[key] = n.attr
        return _m(p.value, n.value, b)
    if isinstance(p, list):
        if not isinstance(n, list):
            return False
        i = 0
        for j, pe in enumerate(p):
            sname = _mvs_name(pe)
            if sname is not None:
                rest_needed = len(p) - j - 1
                take = len(n) - i - rest_needed
                if take < 0:
                    return False
                if sname != '_':
                    b[sname] = n[i:i + take]
                i += take
                continue
            if i >= len(n) or not _m(pe, n[i], b):
                return False
            i += 1
        return i == len(n)
    if isinstance(p, ast.AST):
        if type(p) is not type(n):
            return False
        for f in p._fields:
            if f == 'ctx':
                continue
            if f in ('kind', 'type_comment'):
                continue
            if not _m(getattr(p, f, None), getattr(n, f, None), b):
                return False
        return True
    return p == n


def find_all(pattern: Union[str, ast.AST], root: ast.AST, nested: bool = True) -> List[tuple]:
    """all (node, bindings) under root matching the pattern"""
    pat = parse_pattern(pattern) if isinstance(pattern, str) else pattern
    res = []
    for n in ast.walk(root):
        if type(n) is type(pat) or _mv_name(pat) is not None:
            b = match(pat, n)
            if b is not None:
                res.append((n, b))
    return res


def names_in(node: ast.AST) -> set:
    return {n.id for n in ast.walk(node) if isinstance(n, ast.Name)}


def attr_path(node: ast.AST) -> Optional[str]:
    """a.b.c -> 'a.b.c' for pure Name/Attribute chains"""
    parts = []
    while isinstance(node, ast.Attribute):
        parts.append(node.attr)
        node = node.value
    if isinstance(node, ast.Name):
        parts.append(node.id)
        return '.'.join(reversed(parts))
    return None
