"""Two unrelated projects that happen to reuse small task ids; the first one is linked to a shared
milestone plan and gets cloned, afterwards a subtree is taken from the second one."""
import sys
from pjplan import WBS, Task

ok = True


def check(cond, msg):
    global ok
    print(('ok   ' if cond else 'FAIL ') + msg)
    if not cond:
        ok = False


def links(w):
    return sorted((p.id, t.id) for t in w.tasks for p in t.predecessors)


# shared milestone plan
with WBS() as stones:
    stones // Task(1, 'kickoff', milestone=True)
    stones // Task(2, 'release', milestone=True)

# project A depends on the 'release' milestone of the other WBS
with WBS() as a:
    a // Task(10, 'a-work')
    a // Task(11, 'a-finish')
a[11].predecessors = [a[10], stones[2]]

a_copy = a.clone()
check(links(a_copy) == [(2, 11), (10, 11)], f'clone of A keeps inner and outside link: {links(a_copy)}')
check(a_copy[11].predecessors(id=2)[0] is stones[2], 'outside link of the clone points to the same milestone object')

# project B: completely unrelated, no outside links, uses ids 1..4
with WBS() as b:
    b // Task(1, 'b-spec')
    b // Task(2, 'b-code')
    with b // Task(3, 'b-test') as b3:
        b3 // Task(4, 'b-report')
b[2].predecessors = [b[1]]
b[3].predecessors = [b[2]]

release_successors_before = [(t.id, id(t)) for t in stones[2].successors]

sub = b.subtree(b[3])
print('subtree tasks:', sub.tasks.id, 'links:', links(sub))
check(sub.tasks.id == [3, 4], 'subtree holds task 3 and its child')
check(links(sub) == [], f'link 2->3 ends outside the selection and must be left out, got {links(sub)}')
check(all(p.wbs is sub for t in sub.tasks for p in t.predecessors), 'no link of the copy leaves the copy')
check([(t.id, id(t)) for t in stones[2].successors] == release_successors_before,
      f'milestone plan untouched by a subtree of an unrelated project: successors of release = {stones[2].successors.id}')
check(links(b) == [(1, 2), (2, 3)], 'source B unchanged')

sys.exit(0 if ok else 1)
