import sys
from datetime import datetime, timedelta

import pjplan as pl
from pjplan import Task, WBS

def leaves_of(task):
    """A prerequisite expanded to its leaf descendants"""
    if len(task.children) == 0:
        return [task]
    return [t for t in task.all_children if len(t.children) == 0]


def check(wbs, result, project_start, today):
    """Returns list of violations of 'never start before prerequisites are finished'"""
    sched = result.schedule
    scheduled_ids = [t.id for t in sched.tasks]
    problems = []
    for src in wbs.tasks:
        if len(src.children) > 0:
            continue
        declared = [p for p in src.predecessors]
        for parent in src.all_parents:
            declared += [p for p in parent.predecessors]
        prereq_leaves = []
        for p in declared:
            prereq_leaves += leaves_of(p)

        def planned(p):
            # tasks of this WBS are looked up in the schedule, foreign tasks keep their own dates
            return sched[p.id] if p.wbs is wbs and p.id in scheduled_ids else p

        t = sched[src.id]
        if src.milestone:
            ends = [planned(p).end for p in declared]
            if any(e is None for e in ends):
                problems.append(f"milestone {t.id}: a prerequisite has no end date")
                continue
            expected = max(ends + [project_start])
            if t.start != expected or t.end != expected:
                problems.append(f"milestone {t.id} placed at {t.start}..{t.end}, expected exactly {expected}")
            continue
        if src.start is not None:
            continue  # start fixed by the user

        if t.start is None or t.end is None:
            problems.append(f"task {t.id} was left without dates ({t.start} .. {t.end})")
            continue
        bounds = [("project start", project_start), ("current day", today)]
        if src.min_start is not None:
            bounds.append(("min_start", src.min_start))
        for p in prereq_leaves:
            bounds.append((f"end of prerequisite {p.id}", planned(p).end))
        days = [t.start] + [r.date for r in result.resource_usage.rows(lambda r: r.task.id == t.id)]
        for what, bound in bounds:
            if bound is None:
                problems.append(f"task {t.id} starts {t.start} but {what} is unknown (never scheduled)")
                continue
            early = [d for d in days if d is None or d.date() < bound.date()]
            if early:
                problems.append(f"task {t.id} starts/works on {early[0]} - earlier than {what} = {bound}")
    return problems


now = datetime.now()
project_start = datetime(now.year, now.month, now.day) + timedelta(days=1)

# Two projects numbered independently. Task 1 of the infrastructure project is already done and
# the application project waits for it: its task 2 has this foreign task as predecessor.
infra = WBS()
infra // Task(1, 'Provision', start=datetime(2026, 3, 2), end=datetime(2026, 3, 6), estimate=32, resource='ops')

def build_a():
    # foreign task 1 collides with the id of a leaf task of the application project
    app = WBS()
    app // Task(2, 'Setup env', estimate=8, resource='ops', predecessors=[infra[1]])
    app // Task(1, 'Design', estimate=40, resource='dev')
    app // Task(3, 'Build', estimate=24, resource='dev2', predecessors=[app[1]])
    app // Task(4, 'Go live', milestone=True, predecessors=[app[2], app[3]])
    return app


def build_b():
    # foreign task 1 collides with the id of a summary task of the application project
    app = WBS()
    app // Task(2, 'Setup env', estimate=8, resource='ops', predecessors=[infra[1]])
    with app // Task(1, 'Backend') as backend:
        backend // Task(5, 'API', estimate=40, resource='dev')
    app // Task(6, 'Docs', estimate=8, resource='writer', predecessors=[app[5]])
    app // Task(3, 'Deploy', estimate=8, resource='ops2', predecessors=[app[1]])
    return app


problems = []
for build in (build_a, build_b):
    for balance in (True, False):
        app = build()
        result = pl.ForwardScheduler(start=project_start, balance_resources=balance).calc(app)
        print(f"{build.__name__} balance_resources={balance}")
        for t in result.schedule.tasks:
            print(f"  {t.id} {t.name:10} {t.start} .. {t.end}")
        problems += check(app, result, project_start, now)

for p in problems:
    print("VIOLATION:", p)
print("property holds" if not problems else "property violated")
sys.exit(1 if problems else 0)
