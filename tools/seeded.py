#!/venv/bin/python
"""Run the static checks against every seeded change under /verif/seeded (development tool, not a registered check).

For each seeded/<id>/patch.diff a scratch copy of /repo's working tree (src only) is made under a temp dir, the patch is
applied there with `git apply`, and the checks are run with PJPLAN_REPO pointing at the copy - /repo is never touched.
Prints one line per seeded change: which properties' checks exit 1 (VIOLATION), 2 (undecided) or 0.

    /venv/bin/python tools/seeded.py                 every seeded change x its own property
    /venv/bin/python tools/seeded.py --all-props     every seeded change x every built property
    /venv/bin/python tools/seeded.py C03-1 C08-3     selected
"""
import json
import os
import shutil
import subprocess
import sys
import tempfile
from concurrent.futures import ProcessPoolExecutor

HERE = os.path.dirname(os.path.dirname(os.path.abspath(__file__)))
sys.path.insert(0, HERE)


def built_props():
    import re
    return sorted(f[:-3].upper() for f in os.listdir(os.path.join(HERE, 'rules')) if re.match(r'^c\d\d\.py$', f))


def run_one(args):
    sid, props = args
    d = os.path.join(HERE, 'seeded', sid)
    tmp = tempfile.mkdtemp(prefix='seeded_')
    try:
        shutil.copytree('/repo/src', os.path.join(tmp, 'src'))
        subprocess.run(['git', 'init', '-q'], cwd=tmp, check=True)
        r = subprocess.run(['git', 'apply', os.path.join(d, 'patch.diff')], cwd=tmp, capture_output=True, text=True)
        if r.returncode != 0:
            return sid, {'_': 'PATCH-FAILED ' + r.stderr.strip()[:100]}, {}
        res, msgs = {}, {}
        for p in props:
            env = dict(os.environ, PJPLAN_REPO=tmp, VERIF_NO_EVIDENCE='1')
            pr = subprocess.run(['/venv/bin/python', os.path.join(HERE, 'tools', 'run_noev.py'), p], env=env,
                                capture_output=True, text=True)
            res[p] = pr.returncode
            msgs[p] = [l for l in pr.stdout.splitlines() if l.startswith(('FINDING', 'UNDECIDED', 'ANALYSIS-ERROR'))][:4]
            if pr.returncode not in (0, 1, 2):
                msgs[p] = [pr.stderr[-300:]]
        return sid, res, msgs
    finally:
        shutil.rmtree(tmp, ignore_errors=True)


def main(argv):
    allp = '--all-props' in argv
    verbose = '-v' in argv
    sel = [a for a in argv if not a.startswith('-')]
    built = built_props()
    ids = sorted(os.listdir(os.path.join(HERE, 'seeded')))
    if sel:
        ids = [i for i in ids if i in sel or i.split('-')[0] in sel]
    jobs = []
    benign = set()
    for sid in ids:
        meta = json.load(open(os.path.join(HERE, 'seeded', sid, 'meta.json')))
        prop = meta['property']
        if meta.get('expected') == 'exit0':
            benign.add(sid)
            jobs.append((sid, built))          # a behaviour-preserving change must leave EVERY check at exit 0
            continue
        props = built if allp else [p for p in built if p == prop]
        if props:
            jobs.append((sid, props))
    caught = missed = 0
    false_alarm = benign_ok = benign_undecided = 0
    with ProcessPoolExecutor(max_workers=14) as ex:
        for sid, res, msgs in ex.map(run_one, jobs):
            own = sid.split('-')[0]
            if '_' in res:
                print(f"{sid}  {res['_']}")
                continue
            viol = [p for p, c in res.items() if c == 1]
            und = [p for p, c in res.items() if c == 2]
            if sid in benign:
                summ = json.load(open(os.path.join(HERE, 'seeded', sid, 'meta.json'))).get('summary', '')[:90]
                if viol:
                    false_alarm += 1
                    print(f"{sid}  FALSE-ALARM  violation={viol} undecided={und}  | {summ}")
                elif und:
                    benign_undecided += 1
                    print(f"{sid}  benign-undecided  undecided={und}  | {summ}")
                else:
                    benign_ok += 1
                    print(f"{sid}  ok (all checks exit 0)  | {summ}")
                if verbose:
                    for p, ms in msgs.items():
                        for m in ms:
                            print(f"        {p}: {m[:260]}")
                continue
            hit = bool(viol)
            caught += hit
            missed += (not hit)
            summ = json.load(open(os.path.join(HERE, 'seeded', sid, 'meta.json'))).get('summary', '')[:90]
            print(f"{sid}  {'CAUGHT' if hit else ('undecided' if und else 'MISSED')}  violation={viol} undecided={und}  | {summ}")
            if verbose:
                for p, ms in msgs.items():
                    for m in ms:
                        print(f"        {p}: {m[:220]}")
    print(f"caught {caught} / {caught + missed}")
    if benign:
        print(f"behaviour-preserving changes: {benign_ok} silent, {benign_undecided} undecided (exit 2), {false_alarm} FALSE ALARM")


if __name__ == '__main__':
    main(sys.argv[1:])
