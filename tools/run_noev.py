#!/venv/bin/python
"""run one property's quick check on PJPLAN_REPO without touching /verif/evidence or /verif/reports (used by tools/seeded.py)"""
import os
import sys
import tempfile

HERE = os.path.dirname(os.path.dirname(os.path.abspath(__file__)))
sys.path.insert(0, HERE)
import sa.report as report  # noqa: E402

report.VERIF = tempfile.mkdtemp(prefix='noev_')
# the known findings still come from the real file
_real = os.path.join(HERE, 'known_findings.json')
if os.path.exists(_real):
    import shutil
    shutil.copy(_real, os.path.join(report.VERIF, 'known_findings.json'))
import check  # noqa: E402

try:
    code = check.main(sys.argv[1:])
finally:
    import shutil
    shutil.rmtree(report.VERIF, ignore_errors=True)
sys.exit(code)
