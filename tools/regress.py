#!/venv/bin/python
"""Compare an output file of `tools/seeded.py --all-props` with the recorded state (development tool).

    /venv/bin/python tools/seeded.py --all-props > /tmp/out.txt ; /venv/bin/python tools/regress.py /tmp/out.txt
    /venv/bin/python tools/seeded.py --props C05,C11 > /tmp/out.txt ; /venv/bin/python tools/regress.py /tmp/out.txt --props C05,C11

Recorded state = `caught_by` of every breaking change's meta.json, `expected: exit0` of every refactoring (with the
refactorings whose meta.json carries `undecided_ok` allowed to end undecided for the listed properties). Prints every
difference: LOST (a recorded catch is gone), NEW (a check reports a break it did not report before - to be reviewed as a
cross-claim), FALSE-ALARM / undecided on a refactoring. Exit 1 when a catch is lost or a refactoring raises a violation.
"""
import ast
import json
import os
import re
import sys

HERE = os.path.dirname(os.path.dirname(os.path.abspath(__file__)))
bad = 0
n = 0
ONLY = set(sys.argv[sys.argv.index('--props') + 1].upper().split(',')) if '--props' in sys.argv else None
for l in open(sys.argv[1]):
    m = re.match(r"(\S+)\s+(\S+)\s+(?:violation=(\[.*?\]) )?(?:undecided=(\[.*?\]))?\s*\|", l)
    if not m:
        if 'PATCH-FAILED' in l:
            print(l.rstrip())
            bad += 1
        continue
    n += 1
    sid, _, v, u = m.groups()
    v = set(ast.literal_eval(v or '[]'))
    u = set(ast.literal_eval(u or '[]'))
    meta = json.load(open(os.path.join(os.environ.get('REGRESS_SEEDED') or os.path.join(HERE, 'seeded'), sid, 'meta.json')))
    if meta.get('expected') == 'exit0':
        if v:
            print(f"FALSE-ALARM {sid} {sorted(v)}")
            bad += 1
        extra = u - set(meta.get('undecided_ok', []))
        if extra:
            print(f"undecided   {sid} {sorted(extra)}")
        continue
    if 'caught_by' not in meta:
        print(f"unrecorded  {sid} violation={sorted(v)} undecided={sorted(u)}")
        continue
    rec = set(meta['caught_by'])
    if ONLY is not None:
        rec &= ONLY
    if rec - v:
        print(f"LOST        {sid} {sorted(rec - v)} (now {'undecided' if (rec - v) & u else 'silent'})")
        bad += 1
    if v - rec:
        print(f"NEW         {sid} {sorted(v - rec)}")
print(f"{n} changes compared, {bad} regressions")
sys.exit(1 if bad else 0)
