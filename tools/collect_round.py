#!/venv/bin/python
"""Collect sub-agent output directories (<base>/<Cnn>/out/<k>) into /verif/seeded after re-confirming them here.

  collect_round.py mut /tmp/mut2 r2     property-breaking changes: suite unchanged, demo exits 0 without / 1 with the change
  collect_round.py ref /tmp/ref  ref    behaviour-preserving refactorings: suite unchanged, equiv.py transcript identical
"""
import json, os, re, shutil, subprocess, sys

kind, base, tag = sys.argv[1], sys.argv[2], sys.argv[3]
BASELINE = '4 failed, 84 passed'
head = subprocess.run(['git', '-C', '/repo', 'rev-parse', '--short', 'HEAD'], capture_output=True, text=True).stdout.strip()


def run(cmd, cwd, env=None, timeout=300):
    e = dict(os.environ)
    e.update(env or {})
    return subprocess.run(cmd, cwd=cwd, env=e, capture_output=True, text=True, timeout=timeout)


for pid in sorted(os.listdir(base)):
    wt = os.path.join(base, pid)
    if not re.match(r'C\d\d$', pid) or not os.path.isdir(os.path.join(wt, 'out')):
        continue
    for k in sorted(os.listdir(os.path.join(wt, 'out'))):
        d = os.path.join(wt, 'out', k)
        patch = os.path.join(d, 'patch.diff')
        if not os.path.exists(patch):
            continue
        sid = f"{pid}-{tag}{k}" if kind == 'mut' else f"REF-{pid}-{tag}{k}"
        dst = os.path.join('/verif/seeded', sid)
        if os.path.exists(dst):
            continue
        env = {'PYTHONPATH': os.path.join(wt, 'src')}
        run(['git', 'checkout', '-q', '--', '.'], wt)
        if run(['git', 'apply', '--check', patch], wt).returncode != 0:
            print(sid, 'SKIP patch does not apply'); continue
        prog = 'demo.py' if kind == 'mut' else 'equiv.py'
        if not os.path.exists(os.path.join(d, prog)):
            print(sid, 'SKIP no', prog); continue
        try:
            before = run(['/venv/bin/python', os.path.join(d, prog)], '/tmp', env, 180)
            run(['git', 'apply', patch], wt)
            tests = run(['/venv/bin/python', '-m', 'pytest', '-q', '-p', 'no:cacheprovider'], wt, env).stdout.strip().splitlines()[-1]
            after = run(['/venv/bin/python', os.path.join(d, prog)], '/tmp', env, 180)
        except subprocess.TimeoutExpired:
            run(['git', 'checkout', '-q', '--', '.'], wt)
            print(sid, 'SKIP timeout'); continue
        run(['git', 'checkout', '-q', '--', '.'], wt)
        if not tests.startswith(BASELINE):
            print(sid, 'SKIP suite changed:', tests); continue
        if kind == 'mut':
            if not (before.returncode == 0 and after.returncode == 1):
                print(sid, f'SKIP demo exit without={before.returncode} with={after.returncode}'); continue
            conf = {'suite_with_change': tests, 'demo_exit_without_change': 0, 'demo_exit_with_change': 1}
        else:
            if before.returncode != 0 or after.returncode != 0 or before.stdout != after.stdout or not before.stdout.strip():
                print(sid, f'SKIP transcripts differ or failed (rc {before.returncode}/{after.returncode})'); continue
            conf = {'suite_with_change': tests, 'equiv_transcript_identical': True, 'transcript_lines': before.stdout.count('\n')}
        os.makedirs(dst)
        shutil.copy(patch, dst + '/patch.diff')
        shutil.copy(os.path.join(d, prog), dst + '/' + prog)
        try:
            meta = json.load(open(os.path.join(d, 'meta.json')))
        except Exception:
            meta = {'property': pid, 'summary': '(meta.json unreadable)'}
        meta.update({'id': sid, 'property': pid, 'base_commit': head, 'confirmed': dict(conf, how='git apply in the scratch worktree; '
                     'PYTHONPATH=<wt>/src /venv/bin/python -m pytest -q -p no:cacheprovider; ' + prog + ' before and after')})
        if kind == 'mut':
            meta['origin'] = f'fresh sub-agent given only the property text, a scratch worktree and the summaries of earlier rounds (round {tag}, asked for new kinds of change)'
        else:
            meta['origin'] = 'fresh sub-agent given only the property text: behaviour-preserving refactoring of the code behind the property'
            meta['expected'] = 'exit0'
        json.dump(meta, open(dst + '/meta.json', 'w'), indent=1)
        print(sid, 'ok')
