#!/venv/bin/python
"""Regenerates /verif/MANIFEST.json from the rule modules that exist (development helper)."""
import json
import os

HERE = os.path.dirname(os.path.dirname(os.path.abspath(__file__)))

TEXT = {
    'C01': ("who-may-write + guard-table + dominance + mirror-pairing rules over every writer of the four relation fields "
            "(inductive argument per writer, DESIGN 5/C01)",
            "decides: every write site of parent/children/predecessors/successors state lies in the owner set, every "
            "required guard (self, descendant, ancestor, cycle, dependency-vs-ancestor) raises RuntimeError and dominates "
            "the first write, both ends of every link are written, closure helpers walk the raw links. Not decided: "
            "sufficiency of the guard set is the hand induction in DESIGN.md, not mechanised."),
    'C02': ("lattice entailment on the symbolic term stored to a leaf's start (lower bounds), must-precede of predecessor recursion, "
            "bound hand-down and inherited-prerequisite collection, monotone day search",
            "decides the structural necessary conditions (every bound is an operand of the max, predecessors are scheduled "
            "before their end is read, ancestors' predecessors are collected by the task itself, search never moves "
            "backwards, milestone placement term). Numeric outcomes of capacity arithmetic are not decided."),
    'C03': ("symbolic bound check at every ledger reservation site (amount = min(remaining, CAP - RESV) on the same "
            "resource/day/selector, dominated by free > 0), table agreement of the ledger key, resource-table and report shape",
            "decides per-reservation bound, positivity, day key, default resource creation and report/ledger agreement "
            "structurally; the day-total bound follows by induction over the append-only ledger (argued in DESIGN.md). "
            "Trusts custom IResource implementations and float arithmetic."),
    'C04': ("conservation skeleton of the two fill loops (ledger returns what it stores, loop subtracts exactly the return, "
            "amount <= remaining, guard remaining > 0), emission count per day step, None-guarded date stores, sibling agreement of selectors",
            "decides the loop skeleton, default filling order, first-day terms, nothing-reserved regions and that fixed "
            "dates are only written under `is None`; exact float equality of sums and the 24h window are not decided."),
    'C05': ("immutability of the id field, dominance of the id-intersection guard over every attach write, scope of the receiving tree "
            "(ascends to the WBS sentinel), duplicate detection inside the argument, lookup/enumeration shape",
            "decides the guard placement/scope/polarity and the DFS enumeration shape; relies on C01 for the forest invariant."),
    'C06': ("interprocedural effect analysis with receiver provenance: calc's input only reaches effect-free validators and clone(); "
            "scheduler writes only start/end/estimate/spent of clone tasks and recurses over dependency links only into tasks of the clone; fresh ledger/memo; enumerated nondeterminism sources; definite assignment of start/end",
            "decides purity, same-structure, freshness, all-dated and the list of clock reads / unordered iteration; "
            "clock independence is decided only as 'every clock read is an operand of a max that also contains a term "
            "bounded by the project start' with the two known corner cases listed as known findings."),
    'C07': ("formula equality of the four roll-up terms in the summary region of both passes, clearing of summary fields before the pass "
            "over all tasks, WBS.start/end shape, monotone leaf end",
            "decides that summary start/end/estimate/spent are min/max/sum over all children evaluated after the children "
            "were scheduled and that user values on summaries are cleared for every task of the clone; start <= end of "
            "a leaf from day fractions is numeric and not decided."),
    'C08': ("first-fit search shape (start, +1 day step, first positive exit), greedy amount equality, rational normal form of the "
            "two date-fraction formulas, unwrapped traversal order, selector presence when balancing is off",
            "decides mechanism shape and the two encoding formulas symbolically; that they yield fully booked intervals "
            "for all interleavings is not decided."),
    'C09': ("mirror of C02/C08 under the direction map plus forward/backward sibling agreement",
            "decides deadline flow through min into every leaf end, successors-before-read order, inherited successor "
            "collection, backward search/step/fraction formulas; late-packing as a numeric fact is not decided."),
    'C10': ("provenance analysis of clone/subtree (every mutated object is a copy or a guarded external), per-field copy coverage of "
            "Task.clone against Task.__init__, all four relations rebuilt in source order, WBS attribute copy on the shared path",
            "decides independence of the source (no write through a source object), faithfulness clauses and owner "
            "propagation structurally, and that link ends outside the source are handed to the copy as themselves (never looked up by id in the map of member clones); shared mutable attribute values are not decided."),
    'C11': ("who-may-write on the owner pointer, attach/detach recursion over all children, pairing of every parent write with attach "
            "and of every list removal with detach, same-owner guard table",
            "decides the inductive steps of 'owner = reachable from the sentinel' per writer; relies on C01 for the forest invariant."),
    'C12': ("no exact float comparison on the slack term, registration post-condition of the arc table, leaf expansion and inheritance of "
            "summary dependencies, pass formulas, purity by effect analysis",
            "decides the structural clauses; exactness of the longest-path numbers is not decided."),
    'C13': ("table agreement between writer columns, reader keys, converter pairs, format constant and open modes; field coverage "
            "Task -> TaskRaw -> row -> TaskRaw -> Task",
            "decides column/convertor agreement and id opacity; min_start loss is a recorded known finding; the csv "
            "module's quoting is trusted."),
    'C14': ("exception discipline over the call-graph reach of both calc methods: explicit raise classes, implicit-exception sites with "
            "discharge rules (scheduler core and the library calendars it reaches), bounded loops with counter on every path, recursion edge kinds covered by the loop pre-check, recursion confined to the WBS being scheduled (memo keyed by id)",
            "decides that every explicit raise is RuntimeError, every division/subscript/max-of-empty site is discharged, "
            "every loop has a bound raising RuntimeError, the pre-check follows every edge kind the passes recurse over, and the passes never leave the WBS whose ids key their memo. "
            "Stack depth on deep acyclic inputs is not decided."),
    'C15': ("interprocedural event-order rule: no raise or may-raise operation reachable after the first relation write in any public "
            "mutator unless pre-validated by an equivalent guard before the write",
            "decides validate-then-mutate for every mutator; multi-receiver operators and the constructor are recorded known findings."),
    'C16': ("delegation/argument-shape rules for every facade, index formulas of insert/move, sort/reorder shape, publish-after-replace, "
            "frame of relation writes",
            "decides the documented primitive and argument shape per mutator; resulting list contents for all states are not decided."),
    'C17': ("operator -> combinator -> arithmetic table, sibling agreement of the None-skipping combinators, constructor validation "
            "guard table incl. dead validators, leaf calendar return shapes, search loop shape",
            "decides tables, validation guards and search shape; float arithmetic is trusted."),
    'C18': ("suffix table rule (strip length, longest-suffix-first, operator per suffix, None guard), resolver coverage, all filters "
            "reach every return, read-only by effect analysis, bulk operations over the exact selection",
            "decides the filter table and selection/bulk shapes; behaviour of user predicates is trusted."),
    'C19': ("template placeholder/keyword agreement, emission counts per task/edge/link, date format agreement, JSON by json.dumps, "
            "escape agreement of the three _repr_html_, sink sanitiser table",
            "decides emission counts, formats and sanitisers per sink; Mermaid's and DHTMLX's own grammars are not modelled."),
    'C20': ("emission counts (one row per task call, one cell per field on every path), indentation term, width = running max over all "
            "rows, padding on every return path, usage table day loop",
            "decides row/cell counts, indentation, width and padding terms; multi-line cell texts are not decided."),
}


# obligations added in round 11 (rules/ROBUSTNESS.md), appended to the level notes
ROUND11 = {
    'C02': " Round 11 added: no computed start may be stored to a task before the pass (calc / __prepare_tasks store None or the value itself); a recursion into a prerequisite may not be skipped on a sibling test.",
    'C06': " Round 11 added: keys of the clone map are ids themselves (no str()/repr()/int() of an id), link lists are de-duplicated by object identity.",
    'C07': " Round 11 added: an explicit work-list walk that clears summaries must extend, not replace, the list with the children.",
    'C08': " Round 11 added: the fill starts from the start that the search found (not from the release date handed to the search); the default estimate applies only under `is None`.",
    'C09': " Round 11 added: a summary's start/end is an extremum over all children, never one child chosen by position.",
    'C14': " Round 11 added: the date test before the isolation diagnosis ranges over all outside predecessors (not one picked by next()); the clone never looks a detached task up by id; a strict comparison of day-truncated values for the future-end diagnosis is refuted.",
    'C17': " Round 11 added: operator dunders overridden in calendar subclasses may not change or return an operand; start/end validation written on a difference must be exact (`.days > 0` is refuted); a resource that keeps `calendar.clone()` must get a copy with every field the capacity function reads.",
    'C18': " Round 11 added: the keyword dict may not be rewritten with set()/frozenset() values before the filters run; truth-value comparisons in a filter decision may not depend on the kind of filter value.",
    'C03': " Round 11 added: the capacity reported to the scheduler is the calendar's value (round()/ceil() of it is refuted); a capacity memo must be keyed by the whole date; rows() may not hand out a list stored on the report.",
}


def main():
    props = [json.loads(l) for l in open(os.path.join(HERE, 'properties.jsonl'))]
    import re
    built = sorted(f[:-3].upper() for f in os.listdir(os.path.join(HERE, 'rules')) if re.match(r'^c\d\d\.py$', f))
    na_path = os.path.join(HERE, 'tools', 'not_applicable.json')
    na_reasons = json.load(open(na_path)) if os.path.exists(na_path) else {}
    checks, na = [], []
    for p in props:
        pid = p['id']
        if pid in built and pid not in na_reasons:
            tech, note = TEXT[pid]
            note += ROUND11.get(pid, '')
            checks.append({
                'property_id': pid,
                'quick_cmd': f"/venv/bin/python check.py {pid} --tier quick",
                'thorough_cmd': f"/venv/bin/python check.py {pid} --tier thorough",
                'evidence_file': f"evidence/{pid}.json",
                'replay_cmd_template': f"/venv/bin/python check.py {pid} --replay {{path}}",
                'engine': 'sa',
                'level_claimed': {
                    'category': 'other',
                    'text': ("static analysis (python ast; nothing from /repo is imported or executed): a fixed list of "
                             "universally quantified structural obligations derived from the property text is decided "
                             "on every run over all matching program sites of the current working tree; "
                             "three-valued verdicts, REFUTED -> VIOLATION, UNKNOWN -> exit 2, vacuity floors. " + note),
                    'design_ref': f"DESIGN.md section 5 ({pid}) and section 4 (rule families)"},
                'level_note': note + " Trusted base: CPython's ast parser, the rule code under /verif/sa and /verif/rules, "
                                     "and the argument in DESIGN.md that the decided clauses are necessary conditions of the property.",
                'technique': 'static analysis: ' + tech,
            })
        else:
            na.append({'property_id': pid, 'reason': na_reasons.get(pid, 'check not built yet (engine under construction); see DESIGN.md section 5')})
    m = {
        'version': 1,
        'setup_cmd': '/venv/bin/python check.py --selfcheck',
        'hooks': {'guard': 'PJPLAN_VERIF',
                  'enable': 'no hooks exist: the checks parse /repo/src/pjplan with ast and never import, build or run it',
                  'baseline_off_cmd': 'cd /repo && /venv/bin/python -m pytest -ra -q -p no:cacheprovider --timeout=900 --continue-on-collection-errors',
                  'source_commits': [], 'add_only': True},
        'engines': [{'name': 'sa', 'path': 'sa/', 'serves_properties': [c['property_id'] for c in checks],
                     'kind_free_text': 'repository-specific static analyser: program model with name mangling, statement CFG '
                                       'with dominators, reaching definitions and symbolic expansion, annotation-driven call '
                                       'graph, effect/provenance summaries, AST pattern matcher; rule modules under rules/'}],
        'checks': checks,
        'not_applicable': na,
        'notes': 'fix: commits made in /repo for genuine defects are listed in known_findings.json (fixed entries) and DESIGN.md section 6.',
    }
    json.dump(m, open(os.path.join(HERE, 'MANIFEST.json'), 'w'), indent=1)
    print(f"{len(checks)} checks, {len(na)} not applicable")


if __name__ == '__main__':
    main()
