#!/venv/bin/python
"""Prepare scratch worktrees + TASK.md files for a held-out round of sub-agent changes.

  round_tasks.py <tag>          creates /tmp/mut<tag>/Cnn and /tmp/ref<tag>/Cnn (git worktrees of /repo HEAD, outside /repo and
                                /verif) with a TASK.md each.  The agents see ONLY the property text, their worktree and the
                                one-line summaries of the changes earlier rounds already produced (so that they produce new ones);
                                nothing from /verif's checks.
Collect with tools/collect_round.py, then remove the worktrees (git -C /repo worktree remove --force <dir>).
"""
import json, os, subprocess, sys

tag = sys.argv[1]
MUT = '''# Task: seed a subtle property-breaking change into pjplan

You work ONLY inside this directory: {wt}  (a git worktree of the Python library artem-snopkov/pjplan,
source under {wt}/src/pjplan, tests under {wt}/tests). Do NOT read or write /verif, /repo or /root/.vp,
and do not look at other directories under /tmp. No network is available.

Run python as:   cd {wt} && PYTHONPATH={wt}/src /venv/bin/python ...
Run the suite:   cd {wt} && PYTHONPATH={wt}/src /venv/bin/python -m pytest -q -p no:cacheprovider
(On the unchanged tree exactly 4 tests fail - test_calc_2..test_calc_5 - and 84 pass. That is the baseline:
 "passing the existing tests" means the same 84 still pass and nothing else changes.)

## The property (a behaviour users rely on)

**{title}**

{statement}

Quantified over: {quant}

## What to produce

Produce **3 different, independent** source changes to the library (each one on its own, starting from the
unchanged tree) such that each change

1. makes the library **violate the property above** for some input / operation sequence / configuration,
2. still imports fine and leaves the existing test suite result unchanged (same 84 pass),
3. looks like a realistic mistake or a plausible "refactoring/optimisation/feature" a developer could commit, NOT sabotage
   that any ordinary use would expose at once.  Prefer changes that need something specific to manifest: a multi-step
   sequence of operations, an unusual input, a particular configuration, or two cooperating sites that each look fine alone.
4. Be creative and AVOID the most obvious single-token edits. Good kinds: a helper introduced that handles the common case
   only; a cache or memo that goes stale; state hoisted to a longer-lived object; an early return/continue added for
   "performance"; a condition narrowed or widened slightly; a different but similar attribute/collection used; an update
   moved before/after a check; a loop restructured so one element (first/last/duplicate/None) is treated differently; a
   default value changed; a new code path (new optional parameter, new branch for a type) that skips part of the work; two
   places that must agree and now differ; a larger rewrite of one function that is *almost* equivalent.
5. The 3 changes should differ in kind and touch different functions/mechanisms; where the property spans several
   functions or modules, spread over them.
6. These changes were ALREADY produced by earlier rounds - produce different ones (different site or different mechanism):
{taken}

For each change k = 1, 2, 3 create the directory {wt}/out/k/ containing:
- `patch.diff`  : output of `git diff` for that change alone (relative to the unchanged tree; must apply with
                  `git apply` from the worktree root),
- `demo.py`     : a small self-contained program that uses only the public API, prints what it observes, and
                  exits 0 when the property holds and exits 1 when it is violated.  It must exit 0 on the unchanged tree and
                  exit 1 with your change applied.  It is run as `PYTHONPATH=<tree>/src /venv/bin/python demo.py`
                  so it must NOT hard-code a path to the library (just `import pjplan`).
- `meta.json`   : {{"property": "{pid}", "summary": "<one line: what was changed>", "needs": "<what specific
                  input/sequence/configuration it takes to manifest>", "files": ["<changed files>"]}}

Procedure per change: edit -> run the suite (84 pass) -> run demo (exit 1) -> `git diff > out/k/patch.diff`
-> `git checkout -- src` -> run demo again (exit 0).  Leave the worktree clean (only the untracked `out/` dir) at the end.

Do not modify the tests. Do not add new dependencies. Keep each patch small to medium (1-30 changed lines).
Your final answer: three lines, one per change: the summary and the files touched. Nothing else.
'''
REF = '''# Task: behaviour-preserving refactorings of pjplan

You work ONLY inside this directory: {wt}  (a git worktree of the Python library artem-snopkov/pjplan,
source under {wt}/src/pjplan, tests under {wt}/tests). Do NOT read or write /verif, /repo or /root/.vp,
and do not look at other directories under /tmp. No network is available.

Run python as:   cd {wt} && PYTHONPATH={wt}/src /venv/bin/python ...
Run the suite:   cd {wt} && PYTHONPATH={wt}/src /venv/bin/python -m pytest -q -p no:cacheprovider
(On the unchanged tree exactly 4 tests fail - test_calc_2..test_calc_5 - and 84 pass: that is the baseline.)

## The property (a behaviour users rely on)

**{title}**

{statement}

Quantified over: {quant}

## What to produce

First find the code that makes this property hold (read the source). Then produce **4 different, independent**
refactorings of THAT code (each one on its own, starting from the unchanged tree) that a maintainer might commit and that
are strictly **behaviour preserving**: for every input the library behaves exactly as before (same results, same exceptions
of the same type in the same situations, same side effects), and in particular the property above still holds.

Make them realistic and varied, medium sized (5-40 changed lines each), for example: rename locals/parameters of private
helpers; hoist a sub-expression into a local or inline a local; extract a private helper function/method (or inline one);
turn nested `if` into guard clauses with early `return`/`continue` (or the reverse); replace a loop that builds a list by a
comprehension (or the reverse); `a > b` <-> `b < a`, `not x in y` <-> `x not in y`, `len(x) == 0` <-> `not x` ONLY where
x is certainly a list; reorder independent statements; split or merge conditions (`if a and b` <-> nested ifs);
replace `x if c else y` by an if/else statement; add type annotations, docstrings, comments, logging via the `logging`
module; use keyword arguments at call sites; introduce a named constant; move a private helper between class and module
level; merge two near-duplicate private helpers into one; split a long private method in two. Do NOT change public names or
signatures; messages of exceptions are free to change slightly, but exception TYPES and the conditions under which they
are raised must stay exactly the same. Do not change iteration orders, numeric formulas' values, or what gets written where.

These refactorings were ALREADY produced by an earlier round - produce different ones (other functions, or another kind of
restructuring of the same function):
{taken}

For each refactoring k = 1..4 create the directory {wt}/out/k/ containing:
- `patch.diff` : output of `git diff` for that refactoring alone (must apply with `git apply` from the worktree root),
- `equiv.py`   : a program (public API only, `import pjplan`, no hard-coded library path) that exercises the refactored
                 code on a few dozen varied inputs (include edge cases and error cases) and prints a deterministic
                 transcript of everything observable (results, exception type names). Use fixed dates (e.g. ForwardScheduler
                 start=datetime(2030,1,7)) so the transcript does not depend on the clock.
- `meta.json`  : {{"property": "{pid}", "summary": "<one line>", "files": ["<changed files>"]}}

Procedure per refactoring: on the unchanged tree run `equiv.py > /tmp/ref{tag}_{pid}_k_before.txt`; apply your edit; run the
suite (same 84 pass); run `equiv.py > /tmp/ref{tag}_{pid}_k_after.txt`; the two transcripts MUST be identical (diff them; if
not, your refactoring is not behaviour preserving - fix or replace it); `git diff > out/k/patch.diff`; `git checkout -- src`.
Leave the worktree clean (only the untracked `out/` dir) at the end and delete your /tmp/ref{tag}_{pid}_* files.

Your final answer: four lines, one per refactoring: the summary and the files touched. Nothing else.
'''


def taken(pid, ref):
    out = []
    for d in sorted(os.listdir('/verif/seeded')):
        if ref != d.startswith('REF-'):
            continue
        try:
            m = json.load(open(f'/verif/seeded/{d}/meta.json'))
        except Exception:
            continue
        if m.get('property') == pid and not d.startswith('REVERT'):
            out.append('   - ' + m.get('summary', '')[:300])
    return '\n'.join(out) or '   (none)'


for l in open('/verif/properties.jsonl'):
    p = json.loads(l)
    for base, T, ref in ((f'/tmp/mut{tag}', MUT, False), (f'/tmp/ref{tag}', REF, True)):
        wt = f"{base}/{p['id']}"
        os.makedirs(base, exist_ok=True)
        if not os.path.isdir(wt):
            subprocess.run(['git', '-C', '/repo', 'worktree', 'add', '-q', '--detach', wt, 'HEAD'], check=True)
        open(wt + '/TASK.md', 'w').write(T.format(wt=wt, title=p['title'], statement=p['statement'], quant=p['quantifier']['text'],
                                                  pid=p['id'], taken=taken(p['id'], ref), tag=tag))
print('ok')
