#!/venv/bin/python
"""Re-base patch.diff files that no longer apply to /repo HEAD (after a `fix:` commit moved the context they were cut from).

  rebase_patches.py seeded                 every /verif/seeded/*/patch.diff
  rebase_patches.py out /tmp/mut8 /tmp/ref8   every <dir>/Cnn/out/k/patch.diff of a round that is still to be collected

For each patch that `git apply --check` rejects on HEAD, a scratch worktree (outside /repo and /verif) is made, the patch is
merged with `git apply --3way` (the pre-image blobs named in its index lines are in /repo's object database), and when the
merge is clean `git diff HEAD` replaces patch.diff (meta.json: base_commit updated, rebased_from kept).  Conflicts are listed
and left alone: they need a hand.  The worktree is removed at the end.
"""
import json, os, subprocess, sys, tempfile, shutil


def run(cmd, cwd):
    return subprocess.run(cmd, cwd=cwd, capture_output=True, text=True)


def patches(args):
    if args[0] == 'seeded':
        for d in sorted(os.listdir('/verif/seeded')):
            p = f'/verif/seeded/{d}/patch.diff'
            if os.path.exists(p):
                yield d, p, f'/verif/seeded/{d}/meta.json'
    else:
        for base in args[1:]:
            for c in sorted(os.listdir(base)):
                out = os.path.join(base, c, 'out')
                if os.path.isdir(out):
                    for k in sorted(os.listdir(out)):
                        p = os.path.join(out, k, 'patch.diff')
                        if os.path.exists(p):
                            yield f'{base}/{c}/{k}', p, None


def main():
    head = run(['git', 'rev-parse', '--short', 'HEAD'], '/repo').stdout.strip()
    wt = tempfile.mkdtemp(prefix='rebase_wt_')
    os.rmdir(wt)
    assert run(['git', 'worktree', 'add', '-q', '--detach', wt, 'HEAD'], '/repo').returncode == 0
    ok = stale = fixed = 0
    conflicts = []
    try:
        for sid, p, meta in patches(sys.argv[1:]):
            if run(['git', 'apply', '--check', p], wt).returncode == 0:
                ok += 1
                continue
            stale += 1
            r = run(['git', 'apply', '--3way', p], wt)
            unmerged = run(['git', 'diff', '--name-only', '--diff-filter=U'], wt).stdout.strip()
            if r.returncode != 0 or unmerged:
                conflicts.append((sid, (r.stderr.strip().splitlines() or ['?'])[-1]))
            else:
                new = run(['git', 'diff', 'HEAD'], wt).stdout
                if new.strip():
                    open(p, 'w').write(new)
                    if meta and os.path.exists(meta):
                        m = json.load(open(meta))
                        m.setdefault('rebased_from', m.get('base_commit'))
                        m['base_commit'] = head
                        json.dump(m, open(meta, 'w'), indent=1)
                    fixed += 1
                    print('rebased', sid)
                else:
                    conflicts.append((sid, 'empty after merge'))
            run(['git', 'reset', '-q', '--hard', 'HEAD'], wt)
            run(['git', 'clean', '-fdq'], wt)
    finally:
        run(['git', 'worktree', 'remove', '--force', wt], '/repo')
        shutil.rmtree(wt, ignore_errors=True)
    print(f'{ok} apply as they are, {stale} stale, {fixed} rebased, {len(conflicts)} need a hand')
    for c in conflicts:
        print('  CONFLICT', *c)


if __name__ == '__main__':
    main()
