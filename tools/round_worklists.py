import re,ast,collections,sys,os
tag=sys.argv[1]; f=sys.argv[2]
own=anyp=und=sil=0
rs=ru=rf=0
rows=collections.defaultdict(list)
for l in open(f):
    m=re.match(r"(\S+)\s+(\S+)\s+(?:violation=(\[.*?\]) )?(?:undecided=(\[.*?\]))?\s*\|\s*(.*)",l)
    if not m: continue
    sid,_,v,u,summ=m.groups(); v=ast.literal_eval(v or '[]'); u=ast.literal_eval(u or '[]')
    if sid.startswith('REF'):
        if v: rf+=1
        elif u: ru+=1
        else: rs+=1
        for p in set(v): rows[p].append(f"FALSE-ALARM {sid}: {summ[:110]}")
        for p in set(u): rows[p].append(f"undecided   {sid}: {summ[:110]}")
    else:
        p=sid[:3]
        if p in v: own+=1
        elif v: anyp+=1
        elif u: und+=1
        else: sil+=1
        if p not in v:
            rows[p].append(f"{'UNDECIDED' if p in u else 'MISSED   '}   {sid}: {summ[:110]}")
        for q in set(v)-{p}:
            rows[q].append(f"also-fires  {sid} (a {p} break): confirm it is a real {q} violation")
print('breaks own',own,'other',anyp,'und only',und,'silent',sil,'| ref silent',rs,'und',ru,'FA',rf)
groups={'T1':['C01','C15'],'T2':['C05','C11'],'C10':['C10'],'C12':['C12'],'C13':['C13'],'C16':['C16'],'C17':['C17'],'C18':['C18'],'C19':['C19'],'C20':['C20'],'SA':['C02','C06','C07','C14'],'SB':['C03','C04','C08','C09']}
os.makedirs('/tmp/r3prompts',exist_ok=True)
for g,ps in groups.items():
    body="\n".join(f"[{p}] "+r for p in ps for r in rows.get(p,[])) or "(nothing for your properties on the first run)"
    open(f'/tmp/r3prompts/{tag}_{g}.txt','w').write(body)
    print(g, sum(len(rows.get(p,[])) for p in ps))
