#!/venv/bin/python
"""Regenerates sa/baseline.json: qualified names of every function and module-level constant of /repo's current tree.
Run after a fix: commit in /repo that adds functions; never at check time."""
import ast, json, os, sys
HERE = os.path.dirname(os.path.dirname(os.path.abspath(__file__)))
sys.path.insert(0, HERE)
os.environ['PJPLAN_NO_NORMALISE'] = '1'
from sa.model import Program
p = Program('/repo')
funcs = sorted(q for q, f in p.funcs.items() if f.kind not in ('nested', 'lambda'))
funcs = sorted(set(funcs) | {q[:-7] for q in funcs if q.endswith('.setter')})
consts = {}
for name, m in p.modules.items():
    cs = []
    for st in m.tree.body:
        if isinstance(st, (ast.Assign, ast.AnnAssign)):
            for t in (st.targets if isinstance(st, ast.Assign) else [st.target]):
                if isinstance(t, ast.Name):
                    cs.append(t.id)
    if cs:
        consts[name] = cs
# which baseline functions the Expander can fold into one expression on the baseline tree: on any later tree exactly these
# (and helpers that are new) are inlined, so that a rule sees a call of a baseline function whenever it saw one here
from sa.types import Typer
from sa.flow import Expander
import sa.flow as _flow
_flow.BASELINE_GATE = False
typer = Typer(p)
inl = []
for q, f in sorted(p.funcs.items()):
    if f.kind in ('nested', 'lambda'):
        continue
    try:
        if Expander(p, f, typer)._callee_value(f, 0) is not None:
            inl.append(q)
    except Exception:
        pass
# local names of every baseline function: a local constant with a NEW name (`one_day = timedelta(days=1)`) is folded by the
# normaliser, the locals the rules were written against stay
from sa.model import walk_no_nested
locs = {}
for q, f in sorted(p.funcs.items()):
    if f.kind in ('nested', 'lambda') or isinstance(f.node, ast.Lambda):
        continue
    names = sorted({n.id for n in ast.walk(f.node) if isinstance(n, ast.Name) and isinstance(n.ctx, ast.Store)})
    locs[q] = names
# private fields (`self.__x`) of every class of the reference tree: a tree in which exactly one of them is missing and exactly
# one new private field appears in the same class has renamed it - the normaliser renames it back (sa/normalize.py)
from sa.model import unmangle
fields = {}
for name, m in p.modules.items():
    for st in m.tree.body:
        if isinstance(st, ast.ClassDef):
            pre = '_' + st.name.lstrip('_') + '__'
            fs = sorted({unmangle(n.attr) for n in ast.walk(st) if isinstance(n, ast.Attribute) and n.attr.startswith(pre)
                         and not n.attr.endswith('__') and not isinstance(getattr(n, 'value', None), ast.Call)
                         and not any(isinstance(d, ast.FunctionDef) and d.name in (n.attr, unmangle(n.attr)) for d in st.body)})
            if fs:
                fields[st.name] = fs
json.dump({'functions': funcs, 'fields': fields, 'constants': consts, 'inlinable': inl, 'locals': locs, 'repo_head': os.popen('git -C /repo rev-parse --short HEAD').read().strip()},
          open(os.path.join(HERE, 'sa', 'baseline.json'), 'w'), indent=1)
print(len(inl), 'inlinable;', len(funcs), 'functions;', sum(len(v) for v in consts.values()), 'constants')
