#!/venv/bin/python
"""Regenerates sa/baseline.json: qualified names of every function and module-level constant of /repo's current tree.
Run after a fix: commit in /repo that adds functions; never at check time."""
import ast, json, os, sys
HERE = os.path.dirname(os.path.dirname(os.path.abspath(__file__)))
sys.path.insert(0, HERE)
os.environ['PJPLAN_NO_NORMALISE'] = '1'
from sa.model import Program
p = Program('/repo')
funcs = sorted(q for q, f in p.funcs.items() if f.kind not in ('nested', 'lambda'))
funcs = sorted(set(funcs) | {q[:-7] for q in funcs if q.endswith('.setter')})
consts = {}
for name, m in p.modules.items():
    cs = []
    for st in m.tree.body:
        if isinstance(st, (ast.Assign, ast.AnnAssign)):
            for t in (st.targets if isinstance(st, ast.Assign) else [st.target]):
                if isinstance(t, ast.Name):
                    cs.append(t.id)
    if cs:
        consts[name] = cs
json.dump({'functions': funcs, 'constants': consts, 'repo_head': os.popen('git -C /repo rev-parse --short HEAD').read().strip()},
          open(os.path.join(HERE, 'sa', 'baseline.json'), 'w'), indent=1)
print(len(funcs), 'functions;', sum(len(v) for v in consts.values()), 'constants')
