#!/bin/bash
# run the thorough tier of all 20 properties in parallel (development helper; the registered commands are per property)
cd "$(dirname "$0")/.."
mkdir -p /tmp/thorough_logs
printf '%s\n' C{01..20} | xargs -P "${JOBS:-16}" -I{} sh -c '/venv/bin/python check.py {} --tier thorough > /tmp/thorough_logs/{}.log 2>&1; echo "{} exit $?"' | sort
