#!/venv/bin/python
"""CLI of the static checks.

    /venv/bin/python check.py C03 --tier quick|thorough     decide one property on /repo's current working tree
    /venv/bin/python check.py --selfcheck                   engine import + positive controls (MANIFEST.setup_cmd)
    /venv/bin/python check.py --all [--tier quick]          run every claimed property (convenience, not registered)
    /venv/bin/python check.py C03 --replay reports/C03.quick.json   re-run and print the stored report next to the new one

Exit codes: 0 property held (KNOWN-FINDING lines allowed) | 1 VIOLATION line printed | 2 UNDECIDED / ANALYSIS-ERROR.
Environment: PJPLAN_REPO (default /repo) selects the tree to analyse; VERIF_SEED only orders the thorough tier's variants.
"""
import importlib
import json
import os
import sys
import time
import traceback

HERE = os.path.dirname(os.path.abspath(__file__))
sys.path.insert(0, HERE)

from sa.model import Program, AnalysisError  # noqa: E402
from sa.types import Typer, CallGraph  # noqa: E402
from sa.report import Ctx, finish  # noqa: E402

ALL = [f"C{i:02d}" for i in range(1, 21)]


def run_property(prop: str, tier: str, seed: int, repo=None, overrides=None, quiet=False):
    """returns (exit_code, ctx)"""
    t0 = time.time()
    out = (lambda *a, **k: None) if quiet else print
    prog = Program(repo, overrides)
    typer = Typer(prog)
    cg = CallGraph(prog, typer)
    ctx = Ctx(prog, prop, tier, typer, cg)
    mod = importlib.import_module(f"rules.{prop.lower()}")
    mod.check(ctx)
    extra = None
    if tier == 'thorough' and overrides is None:
        from sa import selfval
        extra = selfval.run(prop, ctx, seed, out)
    code = finish(ctx, t0, seed, extra, out) if overrides is None else _verdict_only(ctx)
    if extra and extra.get('selfval_broken'):
        out(f"ANALYSIS-ERROR property={prop}: checker self-validation failed: {extra['selfval_broken']}")
        code = max(code, 2) if code != 1 else 1
    return code, ctx


def _verdict_only(ctx):
    from sa.report import REFUTED, UNKNOWN, ERROR
    vs = [o.verdict for o in ctx.obligations]
    if REFUTED in vs:
        return 1
    if UNKNOWN in vs or ERROR in vs:
        return 2
    return 0


def main(argv):
    if '--selfcheck' in argv:
        from sa import selfcheck
        return selfcheck.main()
    tier = os.environ.get('VERIF_TIER', 'quick')
    if '--tier' in argv:
        tier = argv[argv.index('--tier') + 1]
    seed = int(os.environ.get('VERIF_SEED', '0') or 0)
    props = [a for a in argv if a.upper() in ALL]
    if '--all' in argv:
        props = ALL
    if not props:
        print(__doc__)
        return 2
    if '--replay' in argv:
        path = argv[argv.index('--replay') + 1]
        try:
            with open(path) as f:
                old = json.load(f)
            print(f"stored report {path}: digest {old.get('source_digest')} violations:")
            for v in old.get('violations', []):
                print(f"  {v['where']} {v['function']} {v['obligation']}: {v['message']} [{v['construct']}]")
        except OSError as e:
            print(f"cannot read {path}: {e}")
        print("re-running the check on the current tree:")
    worst = 0
    for p in props:
        p = p.upper()
        try:
            code, _ = run_property(p, tier, seed)
        except AnalysisError as e:
            print(f"ANALYSIS-ERROR property={p}: {e}")
            code = 2
        except Exception:
            traceback.print_exc()
            print(f"ANALYSIS-ERROR property={p}: checker crashed (traceback above); this is not a verdict on the tree")
            code = 2
        if code == 1:
            worst = 1
        elif code == 2 and worst != 1:
            worst = 2
    return worst


if __name__ == '__main__':
    sys.exit(main(sys.argv[1:]))
